// C07 — node-level header rules: a header is accepted (ProcessNewBlockHeaders) only if its hash meets the target of its nBits, the target is valid,
// nBits is the required value, its time is after the median of the previous 11 and not more than 2 hours ahead of the (mock) clock.
// Oracle c07.header-accepted-only-if: own reference of the rules (cpp_int target, own median-time-past over an own header tree); one-directional, as the
// statement is ("accepted only if"): any accepted header must satisfy every rule. Acceptance of rule-abiding headers is only counted (class floors).
#include <engine/verif.h>
#include <kits/chainsim.h>

#include <chain.h>
#include <consensus/validation.h>
#include <node/blockstorage.h>
#include <primitives/block.h>
#include <util/time.h>
#include <validation.h>

#include <boost/multiprecision/cpp_int.hpp>

#include <algorithm>
#include <map>
#include <memory>
#include <string>
#include <vector>

using namespace verif;

namespace {
using boost::multiprecision::cpp_int;

void init_headers() {}

cpp_int hash_int(const uint256& u) { cpp_int v = 0; for (int i = 31; i >= 0; --i) { v <<= 8; v += u.data()[i]; } return v; }

struct RefTarget { cpp_int mag; bool valid; };
/** regtest: powLimit = 2^255-1 */
RefTarget ref_target(uint32_t bits)
{
    static const cpp_int LIMIT = (cpp_int(1) << 255) - 1;
    unsigned e = bits >> 24;
    cpp_int m = bits & 0x007fffffu;
    cpp_int mag = e >= 3 ? cpp_int(m << (8 * (e - 3))) : cpp_int(m >> (8 * (3 - e)));
    bool neg = (bits & 0x00800000u) && mag != 0;
    bool ovf = mag >= (cpp_int(1) << 256);
    return {mag, !neg && !ovf && mag != 0 && mag <= LIMIT};
}

struct HNode { uint256 prev; int64_t time; int height; };
} // namespace

VERIF_TARGET(c07_headers, init_headers, 24, 320,
             "regtest node over a 15-block base with a mock clock; 3..25 headers, each built on a generated known header (tip, recent, fork) with time in "
             "{MTP-1, MTP, MTP+1, parent time +-1, now+7199, now+7200, now+7201, random}, nBits in {required, mantissa-1, next exponent down, sign bit, zero, "
             "overflow}, nonce ground to meet or to miss the target, occasional clock steps (forward/backward); delivered through ProcessNewBlockHeaders. "
             "Every accepted header must satisfy the own reference of the five rules (PoW, valid target, required nBits, time > own MTP of 11, time <= now+2h). "
             "non-trivial = at least one header accepted and one refused at a rule boundary; distinct = (sequence of (time kind, bits kind, pow kind, verdict))")
{
    int64_t now = 1800000000 + s.range<int64_t>(0, 100000);
    SetMockTime(now);
    ChainSimOpts o;
    auto simp = std::make_unique<ChainSim>(o);
    ChainSim& sim = *simp;
    auto base = sim.LoadBase(15);
    std::map<uint256, HNode> tree;
    for (auto& [h, b] : sim.ledger.blocks) tree[h] = HNode{b.prev, int64_t(b.time), b.height};
    std::vector<uint256> accepted{base.begin(), base.end()};
    const uint32_t REQUIRED = 0x207fffffu; // regtest: no retargeting, minimum difficulty == powLimit
    auto own_mtp = [&](const uint256& h) {
        std::vector<int64_t> t;
        uint256 cur = h;
        for (int i = 0; i < 11; ++i) {
            auto it = tree.find(cur);
            if (it == tree.end()) break;
            t.push_back(it->second.time);
            if (it->second.height == 0) break;
            cur = it->second.prev;
        }
        std::sort(t.begin(), t.end());
        return t[t.size() / 2];
    };
    unsigned nops = s.range<unsigned>(3, 25);
    unsigned n_ok = 0, n_boundary_refused = 0;
    for (unsigned op = 0; op < nops && !s.exhausted(); ++op) {
        if (s.chance(24)) { now += s.pick<int64_t>({1, 60, 7200, -1, -7200, 86400}); SetMockTime(now); st.cls("clock-step"); }
        const uint256 parent = s.chance(150) ? accepted.back() : accepted[accepted.size() - 1 - s.index(std::min<size_t>(accepted.size(), 12))];
        const HNode& pn = tree.at(parent);
        const int64_t mtp = own_mtp(parent);
        unsigned tk = s.range<unsigned>(0, 9);
        int64_t time;
        switch (tk) {
        case 0: time = mtp - 1; break;
        case 1: time = mtp; break;
        case 2: time = mtp + 1; break;
        case 3: time = pn.time + s.pick<int64_t>({-1, 0, 1}); break;
        case 4: time = now + 7199; break;
        case 5: time = now + 7200; break;
        case 6: time = now + 7201; break;
        case 7: time = s.range<int64_t>(mtp - 5, mtp + 20); break;
        default: time = std::max(mtp + 1, pn.time + 1) + s.range<int64_t>(0, 600); break;
        }
        if (time < 0) time = 0;
        if (time > 0xffffffffLL) time = 0xffffffffLL;
        unsigned bk = s.chance(86) ? s.range<unsigned>(1, 6) : 0;
        uint32_t bits = bk == 0 ? REQUIRED : bk == 1 ? REQUIRED - 1 : bk == 2 ? 0x1f7fffffu : bk == 3 ? 0x20800001u : bk == 4 ? 0u : bk == 5 ? 0x21010000u /* 2^256: overflow */ : 0x2000ffffu;
        bool want_pow = !s.chance(40);
        CBlockHeader h;
        h.nVersion = 0x20000000;
        h.hashPrevBlock = parent;
        h.nTime = uint32_t(time);
        h.nBits = bits;
        uint64_t tag = (uint64_t(op) << 32) ^ uint64_t(now);
        memcpy(h.hashMerkleRoot.begin(), &tag, 8);
        RefTarget rt = ref_target(bits);
        // grind: meet the target (or, if asked / impossible, miss it); for an invalid target there is nothing to meet
        h.nNonce = 0;
        if (rt.valid) {
            for (unsigned tries = 0; tries < 200000; ++tries, ++h.nNonce) { bool meets = hash_int(h.GetHash()) <= rt.mag; if (meets == want_pow) break; }
        }
        const uint256 hh = h.GetHash();
        const bool pow_ok = rt.valid && hash_int(hh) <= rt.mag;
        const bool bits_ok = bits == REQUIRED;
        const bool time_old_ok = int64_t(h.nTime) > mtp;
        const bool time_new_ok = int64_t(h.nTime) <= now + 7200;
        const bool ref_ok = pow_ok && bits_ok && time_old_ok && time_new_ok;
        const bool known_before = tree.count(hh) > 0;
        BlockValidationState state;
        std::vector<CBlockHeader> hv; hv.push_back(h);
        bool ok = sim.chainman().ProcessNewBlockHeaders(hv, /*min_pow_checked=*/true, state);
        bool indexed = WITH_LOCK(cs_main, return sim.chainman().m_blockman.LookupBlockIndex(hh) != nullptr);
        st.steps++;
        st.note("op", op, ": parent_h=", pn.height, " time-mtp=", int64_t(h.nTime) - mtp, " time-now=", int64_t(h.nTime) - now, " bits=", bits, " pow_ok=", pow_ok, " ref_ok=", ref_ok, " accepted=", ok,
                ok ? std::string() : " reason=" + state.GetRejectReason());
        if (!known_before) {
            VCHECK(!(ok || indexed) || ref_ok, "c07.header-accepted-only-if", "header accepted although a rule is violated: pow_ok", pow_ok, "bits_ok", bits_ok, "time>mtp", time_old_ok, "time<=now+2h", time_new_ok,
                   "time-mtp", int64_t(h.nTime) - mtp, "time-now", int64_t(h.nTime) - now, "bits", bits);
            VCHECK(ok == indexed, "c07.header-accepted-only-if", "return value and block index disagree", ok, indexed);
        }
        bool boundary = (tk == 1 || tk == 0 || tk == 6 || bk == 1 || !want_pow);
        if (ok && !known_before) { tree[hh] = HNode{parent, int64_t(h.nTime), pn.height + 1}; accepted.push_back(hh); ++n_ok; }
        if (!ok && boundary) ++n_boundary_refused;
        st.mix(uint64_t(tk)); st.mix(uint64_t(bk)); st.mix(uint64_t(want_pow)); st.mix(uint64_t(ok));
        st.cls(ok ? "accepted" : "refused:" + state.GetRejectReason());
        if (ref_ok && !ok) st.cls("rule-abiding-but-refused");
        if (ref_ok && ok) st.cls("rule-abiding-accepted");
        if (tk == 2 && ok) st.cls("accepted-at-mtp+1");
        if (tk == 5 && ok) st.cls("accepted-at-now+2h");
        if (tk == 1) st.cls("time==mtp");
        if (tk == 6) st.cls("time==now+2h+1");
    }
    SetMockTime(0);
    st.nontrivial = n_ok >= 1 && n_boundary_refused >= 1;
}
