// sutd -- persistent "system under test" daemon for engine E2 (DESIGN.md 3.3, py/README.md).
//
// Protocol: one JSON object per line on stdin ({"op": "<name>", ...}), one JSON object per line on stdout.
// Bytes travel as hex strings, 64-bit integers as JSON numbers (UniValue keeps them exact; Python ints are exact).
// Unknown op / malformed request -> {"error": "..."}.  Every reply echoes "id" if the request carried one.
//
// sutd is NEVER the oracle: every op is a thin wrapper that calls the repo's C++ code and reports what it
// returned. Anything that looks like a decision (is this signature valid? is this encoding canonical?) must be
// made on the Python side from an independent reference.
//
// Adding an op:   OP(my_op) { auto data = Bytes(r, "data"); ...; UniValue o(UniValue::VOBJ); o.pushKV("x", Hex(out)); return o; }
// Helpers: Bytes(r,k) / OptBytes(r,k) (hex -> vector), Str(r,k), I64(r,k) / U64(r,k) / Bool(r,k,default), Hex(span),
//          Chunked(data, r["chunks"], fn) (feeds `data` to fn(ptr,len) in the given piece sizes; remainder last).
// A std::ios_base::failure (deserialization error) is an *outcome*, report it as {"ok":false,"err":what};
// any other exception escaping an op becomes {"error":...} (a harness usage error on the Python side).

#include <crypto/common.h>
#include <base58.h>
#include <bech32.h>
#include <blockencodings.h>
#include <chainparams.h>
#include <common/bloom.h>
#include <consensus/amount.h>
#include <crypto/aes.h>
#include <crypto/chacha20.h>
#include <crypto/chacha20poly1305.h>
#include <crypto/hkdf_sha256_32.h>
#include <crypto/hmac_sha256.h>
#include <crypto/hmac_sha512.h>
#include <crypto/muhash.h>
#include <crypto/poly1305.h>
#include <crypto/ripemd160.h>
#include <crypto/sha1.h>
#include <crypto/sha256.h>
#include <crypto/sha3.h>
#include <crypto/sha512.h>
#include <crypto/siphash.h>
#include <hash.h>
#include <key.h>
#include <key_io.h>
#include <addresstype.h>
#include <merkleblock.h>
#include <primitives/block.h>
#include <primitives/transaction.h>
#include <protocol.h>
#include <pubkey.h>
#include <script/interpreter.h>
#include <script/script.h>
#include <script/script_error.h>
#include <secp256k1.h>
#include <secp256k1_extrakeys.h>
#include <secp256k1_schnorrsig.h>
#include <serialize.h>
#include <streams.h>
#include <uint256.h>
#include <univalue.h>
#include <util/chaintype.h>
#include <util/moneystr.h>
#include <util/strencodings.h>

#include <cstdio>
#include <functional>
#include <iostream>
#include <map>
#include <optional>
#include <stdexcept>
#include <string>
#include <vector>

namespace {

using Bytes_t = std::vector<unsigned char>;
using OpFn = std::function<UniValue(const UniValue&)>;

std::map<std::string, OpFn>& Registry()
{
    static std::map<std::string, OpFn> r;
    return r;
}
struct Reg {
    Reg(const char* name, OpFn fn) { Registry()[name] = std::move(fn); }
};
#define OP(name)                                      \
    static UniValue op_##name(const UniValue& r);     \
    static Reg reg_##name{#name, op_##name};          \
    static UniValue op_##name(const UniValue& r)

struct UsageError : std::runtime_error {
    using std::runtime_error::runtime_error;
};

const UniValue& Field(const UniValue& r, const std::string& k)
{
    const UniValue& v = r.find_value(k);
    if (v.isNull()) throw UsageError("missing field '" + k + "'");
    return v;
}
bool Has(const UniValue& r, const std::string& k) { return !r.find_value(k).isNull(); }
Bytes_t HexToBytes(const std::string& s, const std::string& what)
{
    auto v = TryParseHex<unsigned char>(s);
    if (!v) throw UsageError("field '" + what + "' is not hex");
    return *v;
}
Bytes_t Bytes(const UniValue& r, const std::string& k) { return HexToBytes(Field(r, k).get_str(), k); }
std::optional<Bytes_t> OptBytes(const UniValue& r, const std::string& k)
{
    if (!Has(r, k)) return std::nullopt;
    return Bytes(r, k);
}
Bytes_t BytesN(const UniValue& r, const std::string& k, size_t n)
{
    auto b = Bytes(r, k);
    if (b.size() != n) throw UsageError("field '" + k + "' must be " + std::to_string(n) + " bytes");
    return b;
}
std::string Str(const UniValue& r, const std::string& k) { return Field(r, k).get_str(); }
int64_t I64(const UniValue& r, const std::string& k) { return Field(r, k).getInt<int64_t>(); }
uint64_t U64(const UniValue& r, const std::string& k) { return Field(r, k).getInt<uint64_t>(); }
int64_t I64d(const UniValue& r, const std::string& k, int64_t d) { return Has(r, k) ? I64(r, k) : d; }
bool Bool(const UniValue& r, const std::string& k, bool d) { return Has(r, k) ? Field(r, k).get_bool() : d; }
template <typename S>
std::string Hex(const S& s) { return HexStr(MakeUCharSpan(s)); }
uint256 U256(const UniValue& r, const std::string& k) { return uint256{std::span<const unsigned char>{BytesN(r, k, 32)}}; }
std::span<const std::byte> AsB(const Bytes_t& v) { return MakeByteSpan(v); }
/** data pointer that is never null (an empty std::vector has data()==nullptr; raw-pointer APIs are never called with null by the node) */
const unsigned char* P(const Bytes_t& v)
{
    static const unsigned char dummy{0};
    return v.empty() ? &dummy : v.data();
}

/** Feed data to fn(ptr,len) split into the piece sizes listed in `chunks` (missing/short list: remainder in one call). */
template <typename F>
void Chunked(const Bytes_t& data, const UniValue& chunks, F fn)
{
    size_t pos = 0;
    if (chunks.isArray()) {
        for (size_t i = 0; i < chunks.size(); ++i) {
            size_t n = std::min<size_t>(chunks[i].getInt<uint64_t>(), data.size() - pos);
            fn(P(data) + pos, n);
            pos += n;
        }
    }
    if (pos < data.size() || !chunks.isArray()) fn(P(data) + pos, data.size() - pos);
}

UniValue Obj() { return UniValue(UniValue::VOBJ); }

// ------------------------------------------------------------------------------------------------------------
// meta

OP(ping)
{
    UniValue o = Obj();
    o.pushKV("pong", true);
    return o;
}

OP(ops)
{
    UniValue a(UniValue::VARR);
    for (auto& [k, v] : Registry()) a.push_back(k);
    UniValue o = Obj();
    o.pushKV("ops", a);
    return o;
}

// ------------------------------------------------------------------------------------------------------------
// hashes (C49)

template <typename H>
Bytes_t RunHasher(H& h, const UniValue& r, const Bytes_t& data)
{
    // optional: write junk, Reset(), then the real message (exercises Reset on a dirty object)
    if (auto junk = OptBytes(r, "junk_then_reset")) {
        h.Write(P(*junk), junk->size());
        h.Reset();
    }
    Chunked(data, r.find_value("chunks"), [&](const unsigned char* p, size_t n) { h.Write(p, n); });
    Bytes_t out(H::OUTPUT_SIZE);
    h.Finalize(out.data());
    return out;
}

/** {"op":"hash","alg":"sha256|sha512|sha1|ripemd160|sha3_256|hash256|hash160","data":hex,"chunks":[n,...]?,"junk_then_reset":hex?} -> {"hash":hex} */
OP(hash)
{
    const std::string alg = Str(r, "alg");
    const Bytes_t data = Bytes(r, "data");
    Bytes_t out;
    if (alg == "sha256") { CSHA256 h; out = RunHasher(h, r, data); }
    else if (alg == "sha512") { CSHA512 h; out = RunHasher(h, r, data); }
    else if (alg == "sha1") { CSHA1 h; out = RunHasher(h, r, data); }
    else if (alg == "ripemd160") { CRIPEMD160 h; out = RunHasher(h, r, data); }
    else if (alg == "sha3_256") {
        SHA3_256 h;
        if (auto junk = OptBytes(r, "junk_then_reset")) { h.Write(*junk); h.Reset(); }
        Chunked(data, r.find_value("chunks"), [&](const unsigned char* p, size_t n) { h.Write(std::span<const unsigned char>(p, n)); });
        out.resize(SHA3_256::OUTPUT_SIZE);
        h.Finalize(out);
    } else if (alg == "hash256") {
        CHash256 h;
        Chunked(data, r.find_value("chunks"), [&](const unsigned char* p, size_t n) { h.Write(std::span<const unsigned char>(p, n)); });
        out.resize(CHash256::OUTPUT_SIZE);
        h.Finalize(out);
    } else if (alg == "hash160") {
        CHash160 h;
        Chunked(data, r.find_value("chunks"), [&](const unsigned char* p, size_t n) { h.Write(std::span<const unsigned char>(p, n)); });
        out.resize(CHash160::OUTPUT_SIZE);
        h.Finalize(out);
    } else {
        throw UsageError("unknown alg " + alg);
    }
    UniValue o = Obj();
    o.pushKV("hash", Hex(out));
    return o;
}

/** {"op":"sha256_backend","mask":0..7} -> {"name": "..."}: selects the SHA-256 implementation for every later call (SHA256AutoDetect). */
OP(sha256_backend)
{
    auto mask = static_cast<sha256_implementation::UseImplementation>(U64(r, "mask") & 7);
    UniValue o = Obj();
    o.pushKV("name", SHA256AutoDetect(mask));
    return o;
}

/** {"op":"sha256d64","data":hex (64*k bytes)} -> {"out":hex (32*k)} */
OP(sha256d64)
{
    const Bytes_t data = Bytes(r, "data");
    if (data.size() % 64) throw UsageError("data must be a multiple of 64 bytes");
    Bytes_t out(data.size() / 2);
    if (data.empty()) throw UsageError("empty input");
    SHA256D64(out.data(), data.data(), data.size() / 64);
    UniValue o = Obj();
    o.pushKV("out", Hex(out));
    return o;
}

/** {"op":"hmac","alg":"sha256|sha512","key":hex,"data":hex,"chunks":?} -> {"mac":hex} */
OP(hmac)
{
    const std::string alg = Str(r, "alg");
    const Bytes_t key = Bytes(r, "key"), data = Bytes(r, "data");
    Bytes_t out;
    if (alg == "sha256") {
        CHMAC_SHA256 h(P(key), key.size());
        Chunked(data, r.find_value("chunks"), [&](const unsigned char* p, size_t n) { h.Write(p, n); });
        out.resize(CHMAC_SHA256::OUTPUT_SIZE);
        h.Finalize(out.data());
    } else if (alg == "sha512") {
        CHMAC_SHA512 h(P(key), key.size());
        Chunked(data, r.find_value("chunks"), [&](const unsigned char* p, size_t n) { h.Write(p, n); });
        out.resize(CHMAC_SHA512::OUTPUT_SIZE);
        h.Finalize(out.data());
    } else {
        throw UsageError("unknown alg " + alg);
    }
    UniValue o = Obj();
    o.pushKV("mac", Hex(out));
    return o;
}

/** {"op":"hkdf","ikm":hex,"salt":hex,"info":[hex,...]} -> {"out":[hex32,...]} (one Expand32 per info, same extractor object) */
OP(hkdf)
{
    const Bytes_t ikm = Bytes(r, "ikm"), salt = Bytes(r, "salt");
    CHKDF_HMAC_SHA256_L32 h(P(ikm), ikm.size(), std::string(salt.begin(), salt.end()));
    UniValue outs(UniValue::VARR);
    const UniValue& infos = Field(r, "info").get_array();
    for (size_t i = 0; i < infos.size(); ++i) {
        Bytes_t info = HexToBytes(infos[i].get_str(), "info");
        unsigned char out[32];
        h.Expand32(std::string(info.begin(), info.end()), out);
        outs.push_back(Hex(out));
    }
    UniValue o = Obj();
    o.pushKV("out", outs);
    return o;
}

/** {"op":"siphash","k0":n,"k1":n, "mode":"bytes","data":hex,"chunks":?  |  "mode":"u64","words":[n,...]  |
 *   "mode":"u256","val":hex32  |  "mode":"u256extra","val":hex32,"extra":n  |  "mode":"mixed","parts":[["w",n]|["b",hex],...] } -> {"hash":n}
 *  bytes/u64/mixed: CSipHasher; u256/u256extra: PresaltedSipHasher. */
OP(siphash)
{
    const uint64_t k0 = U64(r, "k0"), k1 = U64(r, "k1");
    const std::string mode = Str(r, "mode");
    uint64_t h;
    if (mode == "bytes") {
        CSipHasher s(k0, k1);
        Chunked(Bytes(r, "data"), r.find_value("chunks"), [&](const unsigned char* p, size_t n) { s.Write(std::span<const unsigned char>(p, n)); });
        h = s.Finalize();
        if (s.Finalize() != h) throw std::runtime_error("Finalize not idempotent");
    } else if (mode == "u64") {
        CSipHasher s(k0, k1);
        const UniValue& w = Field(r, "words").get_array();
        for (size_t i = 0; i < w.size(); ++i) s.Write(w[i].getInt<uint64_t>());
        h = s.Finalize();
    } else if (mode == "mixed") {
        // precondition of Write(uint64_t): a multiple of 8 bytes written so far (caller's duty)
        CSipHasher s(k0, k1);
        const UniValue& parts = Field(r, "parts").get_array();
        for (size_t i = 0; i < parts.size(); ++i) {
            const UniValue& p = parts[i].get_array();
            if (p[0].get_str() == "w") s.Write(p[1].getInt<uint64_t>());
            else { Bytes_t b = HexToBytes(p[1].get_str(), "parts"); s.Write(std::span<const unsigned char>(b)); }
        }
        h = s.Finalize();
    } else if (mode == "u256") {
        h = PresaltedSipHasher(k0, k1)(U256(r, "val"));
    } else if (mode == "u256extra") {
        h = PresaltedSipHasher(k0, k1)(U256(r, "val"), static_cast<uint32_t>(U64(r, "extra")));
    } else {
        throw UsageError("unknown mode " + mode);
    }
    UniValue o = Obj();
    o.pushKV("hash", h);
    return o;
}

/** SipHash-1-3-UJ (custom variant, documented in crypto/siphash.h): {"k0","k1","parts":[["w",n]|["j",hex32],...]} -> {"hash":n}.
 *  If the last part is "j" (optionally followed by one "w") "hash_oneshot" is the result of the Hash() shortcut. */
OP(siphash13uj)
{
    const uint64_t k0 = U64(r, "k0"), k1 = U64(r, "k1");
    SipHasher13UJ s(k0, k1);
    const UniValue& parts = Field(r, "parts").get_array();
    for (size_t i = 0; i < parts.size(); ++i) {
        const UniValue& p = parts[i].get_array();
        if (p[0].get_str() == "w") s.Write(p[1].getInt<uint64_t>());
        else s.WriteJumbo(uint256{std::span<const unsigned char>{HexToBytes(p[1].get_str(), "parts")}});
    }
    UniValue o = Obj();
    o.pushKV("hash", s.Finalize());
    return o;
}

ChaCha20::Nonce96 Nonce(const UniValue& r)
{
    // 12-byte RFC 8439 nonce = LE32(first) || LE64(second)
    Bytes_t n = BytesN(r, "nonce", 12);
    return {ReadLE32(n.data()), ReadLE64(n.data() + 4)};
}

/** {"op":"chacha20","key":hex32,"nonce":hex12,"counter":n,"steps":[["c",hex]|["k",n]|["seek",hex12,n],...],"aligned":bool?}
 *  -> {"out":[hex,...]} one output per "c" (Crypt) / "k" (Keystream) step; "aligned": use ChaCha20Aligned (sizes multiple of 64). */
OP(chacha20)
{
    const Bytes_t key = BytesN(r, "key", 32);
    const bool aligned = Bool(r, "aligned", false);
    ChaCha20 c(AsB(key));
    ChaCha20Aligned ca(AsB(key));
    auto seek = [&](ChaCha20::Nonce96 n, uint32_t ctr) { if (aligned) ca.Seek(n, ctr); else c.Seek(n, ctr); };
    seek(Nonce(r), static_cast<uint32_t>(U64(r, "counter")));
    UniValue outs(UniValue::VARR);
    const UniValue& steps = Field(r, "steps").get_array();
    for (size_t i = 0; i < steps.size(); ++i) {
        const UniValue& s = steps[i].get_array();
        const std::string k = s[0].get_str();
        if (k == "c") {
            Bytes_t in = HexToBytes(s[1].get_str(), "steps"), out(in.size());
            if (aligned) ca.Crypt(AsB(in), MakeWritableByteSpan(out)); else c.Crypt(AsB(in), MakeWritableByteSpan(out));
            outs.push_back(Hex(out));
        } else if (k == "k") {
            Bytes_t out(s[1].getInt<uint64_t>());
            if (aligned) ca.Keystream(MakeWritableByteSpan(out)); else c.Keystream(MakeWritableByteSpan(out));
            outs.push_back(Hex(out));
        } else if (k == "seek") {
            Bytes_t n = HexToBytes(s[1].get_str(), "steps");
            if (n.size() != 12) throw UsageError("seek nonce must be 12 bytes");
            seek({ReadLE32(n.data()), ReadLE64(n.data() + 4)}, static_cast<uint32_t>(s[2].getInt<uint64_t>()));
        } else {
            throw UsageError("unknown step " + k);
        }
    }
    UniValue o = Obj();
    o.pushKV("out", outs);
    return o;
}

/** {"op":"fschacha20","key":hex32,"rekey_interval":n,"chunks":[hex,...]} -> {"out":[hex,...]} */
OP(fschacha20)
{
    const Bytes_t key = BytesN(r, "key", 32);
    FSChaCha20 c(AsB(key), static_cast<uint32_t>(U64(r, "rekey_interval")));
    UniValue outs(UniValue::VARR);
    const UniValue& chunks = Field(r, "chunks").get_array();
    for (size_t i = 0; i < chunks.size(); ++i) {
        Bytes_t in = HexToBytes(chunks[i].get_str(), "chunks"), out(in.size());
        c.Crypt(AsB(in), MakeWritableByteSpan(out));
        outs.push_back(Hex(out));
    }
    UniValue o = Obj();
    o.pushKV("out", outs);
    return o;
}

/** {"op":"poly1305","key":hex32,"data":hex,"chunks":?} -> {"tag":hex16} */
OP(poly1305)
{
    const Bytes_t key = BytesN(r, "key", 32);
    Poly1305 p(AsB(key));
    Chunked(Bytes(r, "data"), r.find_value("chunks"), [&](const unsigned char* d, size_t n) { p.Update(std::span<const std::byte>(reinterpret_cast<const std::byte*>(d), n)); });
    Bytes_t tag(Poly1305::TAGLEN);
    p.Finalize(MakeWritableByteSpan(tag));
    UniValue o = Obj();
    o.pushKV("tag", Hex(tag));
    return o;
}

/** {"op":"aead_encrypt","key":hex32,"nonce":hex12,"aad":hex,"plain":hex,"split":n?} -> {"cipher":hex}  (split: plain1 = first n bytes)
 *  {"op":"aead_decrypt","key","nonce","aad","cipher":hex (>=16 bytes),"split":n?} -> {"ok":bool,"plain":hex (only if ok)}
 *  {"op":"aead_keystream","key","nonce","len":n} -> {"out":hex} */
OP(aead_encrypt)
{
    const Bytes_t key = BytesN(r, "key", 32), aad = Bytes(r, "aad"), plain = Bytes(r, "plain");
    AEADChaCha20Poly1305 a(AsB(key));
    Bytes_t cipher(plain.size() + AEADChaCha20Poly1305::EXPANSION);
    if (Has(r, "split")) {
        size_t n = std::min<size_t>(U64(r, "split"), plain.size());
        a.Encrypt(AsB(plain).first(n), AsB(plain).subspan(n), AsB(aad), Nonce(r), MakeWritableByteSpan(cipher));
    } else {
        a.Encrypt(AsB(plain), AsB(aad), Nonce(r), MakeWritableByteSpan(cipher));
    }
    UniValue o = Obj();
    o.pushKV("cipher", Hex(cipher));
    return o;
}

OP(aead_decrypt)
{
    const Bytes_t key = BytesN(r, "key", 32), aad = Bytes(r, "aad"), cipher = Bytes(r, "cipher");
    if (cipher.size() < AEADChaCha20Poly1305::EXPANSION) throw UsageError("cipher shorter than the tag");
    AEADChaCha20Poly1305 a(AsB(key));
    Bytes_t plain(cipher.size() - AEADChaCha20Poly1305::EXPANSION);
    bool ok;
    if (Has(r, "split")) {
        size_t n = std::min<size_t>(U64(r, "split"), plain.size());
        ok = a.Decrypt(AsB(cipher), AsB(aad), Nonce(r), MakeWritableByteSpan(plain).first(n), MakeWritableByteSpan(plain).subspan(n));
    } else {
        ok = a.Decrypt(AsB(cipher), AsB(aad), Nonce(r), MakeWritableByteSpan(plain));
    }
    UniValue o = Obj();
    o.pushKV("ok", ok);
    if (ok) o.pushKV("plain", Hex(plain));
    return o;
}

OP(aead_keystream)
{
    const Bytes_t key = BytesN(r, "key", 32);
    AEADChaCha20Poly1305 a(AsB(key));
    Bytes_t out(U64(r, "len"));
    a.Keystream(Nonce(r), MakeWritableByteSpan(out));
    UniValue o = Obj();
    o.pushKV("out", Hex(out));
    return o;
}

/** {"op":"fsaead","key":hex32,"rekey_interval":n,"packets":[{"dec":bool,"aad":hex,"data":hex,"split":n?},...]}
 *  -> {"out":[{"ok":bool,"data":hex},...]}   one FSChaCha20Poly1305 object processes all packets in order
 *  (enc: data = plaintext -> ciphertext||tag; dec: data = ciphertext||tag -> plaintext if ok). */
OP(fsaead)
{
    const Bytes_t key = BytesN(r, "key", 32);
    FSChaCha20Poly1305 a(AsB(key), static_cast<uint32_t>(U64(r, "rekey_interval")));
    UniValue outs(UniValue::VARR);
    const UniValue& pk = Field(r, "packets").get_array();
    for (size_t i = 0; i < pk.size(); ++i) {
        const UniValue& p = pk[i];
        const Bytes_t aad = Bytes(p, "aad"), data = Bytes(p, "data");
        UniValue e = Obj();
        if (Bool(p, "dec", false)) {
            if (data.size() < FSChaCha20Poly1305::EXPANSION) throw UsageError("cipher shorter than the tag");
            Bytes_t plain(data.size() - FSChaCha20Poly1305::EXPANSION);
            bool ok;
            if (Has(p, "split")) {
                size_t n = std::min<size_t>(U64(p, "split"), plain.size());
                ok = a.Decrypt(AsB(data), AsB(aad), MakeWritableByteSpan(plain).first(n), MakeWritableByteSpan(plain).subspan(n));
            } else {
                ok = a.Decrypt(AsB(data), AsB(aad), MakeWritableByteSpan(plain));
            }
            e.pushKV("ok", ok);
            e.pushKV("data", ok ? Hex(plain) : std::string());
        } else {
            Bytes_t cipher(data.size() + FSChaCha20Poly1305::EXPANSION);
            if (Has(p, "split")) {
                size_t n = std::min<size_t>(U64(p, "split"), data.size());
                a.Encrypt(AsB(data).first(n), AsB(data).subspan(n), AsB(aad), MakeWritableByteSpan(cipher));
            } else {
                a.Encrypt(AsB(data), AsB(aad), MakeWritableByteSpan(cipher));
            }
            e.pushKV("ok", true);
            e.pushKV("data", Hex(cipher));
        }
        outs.push_back(e);
    }
    UniValue o = Obj();
    o.pushKV("out", outs);
    return o;
}

/** {"op":"aes256","key":hex32,"block":hex16,"decrypt":bool} -> {"out":hex16} */
OP(aes256)
{
    const Bytes_t key = BytesN(r, "key", 32), in = BytesN(r, "block", 16);
    Bytes_t out(16);
    if (Bool(r, "decrypt", false)) AES256Decrypt(key.data()).Decrypt(out.data(), in.data());
    else AES256Encrypt(key.data()).Encrypt(out.data(), in.data());
    UniValue o = Obj();
    o.pushKV("out", Hex(out));
    return o;
}

/** {"op":"aes256cbc","key":hex32,"iv":hex16,"pad":bool,"data":hex,"decrypt":bool} -> {"n":int (return value),"out":hex (first n bytes)} */
OP(aes256cbc)
{
    const Bytes_t key = BytesN(r, "key", 32), iv = BytesN(r, "iv", 16), data = Bytes(r, "data");
    const bool pad = Bool(r, "pad", true);
    Bytes_t out(data.size() + AES_BLOCKSIZE);
    int n;
    if (Bool(r, "decrypt", false)) n = AES256CBCDecrypt(key.data(), iv.data(), pad).Decrypt(P(data), data.size(), out.data());
    else n = AES256CBCEncrypt(key.data(), iv.data(), pad).Encrypt(P(data), data.size(), out.data());
    out.resize(std::max(0, n));
    UniValue o = Obj();
    o.pushKV("n", n);
    o.pushKV("out", Hex(out));
    return o;
}

/** {"op":"muhash","steps":[["i",hex]|["r",hex],...],"combine":bool?} -> {"hash":hex32}
 *  combine: build inserted and removed sets in two separate objects and divide (exercises operator/=). */
OP(muhash)
{
    MuHash3072 a, b;
    const bool combine = Bool(r, "combine", false);
    const UniValue& steps = Field(r, "steps").get_array();
    for (size_t i = 0; i < steps.size(); ++i) {
        const UniValue& s = steps[i].get_array();
        Bytes_t d = HexToBytes(s[1].get_str(), "steps");
        if (s[0].get_str() == "i") a.Insert(d);
        else if (combine) b.Insert(d);
        else a.Remove(d);
    }
    if (combine) a /= b;
    uint256 out;
    a.Finalize(out);
    UniValue o = Obj();
    o.pushKV("hash", Hex(out));
    return o;
}

// ------------------------------------------------------------------------------------------------------------
// text codecs (C48)

std::string RawStr(const UniValue& r, const std::string& k)
{
    // arbitrary byte strings (incl. NUL and non-UTF8) travel hex-encoded in "<k>_hex"; plain JSON strings in "<k>"
    if (Has(r, k + "_hex")) { Bytes_t b = Bytes(r, k + "_hex"); return std::string(b.begin(), b.end()); }
    return Str(r, k);
}

/** {"op":"codec","name":N,"dir":"enc|dec", enc: "data":hex | dec: "str":string or "str_hex":hex, "max_len":n? (base58 dec), "pad":bool? (base32 enc)}
 *  N in hex | base58 | base58check | base64 | base32.  enc -> {"str":string}   dec -> {"ok":bool,"data":hex} */
OP(codec)
{
    const std::string name = Str(r, "name"), dir = Str(r, "dir");
    UniValue o = Obj();
    if (dir == "enc") {
        const Bytes_t d = Bytes(r, "data");
        std::string s;
        if (name == "hex") s = HexStr(d);
        else if (name == "base58") s = EncodeBase58(d);
        else if (name == "base58check") s = EncodeBase58Check(d);
        else if (name == "base64") s = EncodeBase64(d);
        else if (name == "base32") s = EncodeBase32(d, Bool(r, "pad", true));
        else throw UsageError("unknown codec " + name);
        o.pushKV("str", s);
        return o;
    }
    const std::string s = RawStr(r, "str");
    std::optional<Bytes_t> d;
    if (name == "hex") {
        d = TryParseHex<unsigned char>(s);
        o.pushKV("is_hex", IsHex(s));
        o.pushKV("parsehex", Hex(ParseHex(s)));
    } else if (name == "base58" || name == "base58check") {
        Bytes_t out;
        int max_len = static_cast<int>(I64d(r, "max_len", 1 << 20));
        bool ok = name == "base58" ? DecodeBase58(s, out, max_len) : DecodeBase58Check(s, out, max_len);
        if (ok) d = out;
    } else if (name == "base64") d = DecodeBase64(s);
    else if (name == "base32") d = DecodeBase32(s);
    else throw UsageError("unknown codec " + name);
    o.pushKV("ok", d.has_value());
    o.pushKV("data", d ? Hex(*d) : std::string());
    return o;
}

/** {"op":"money","dir":"format","n":int64} -> {"str":...}    {"op":"money","dir":"parse","str"|"str_hex"} -> {"ok":bool,"n":int64} */
OP(money)
{
    UniValue o = Obj();
    if (Str(r, "dir") == "format") {
        o.pushKV("str", FormatMoney(I64(r, "n")));
    } else {
        auto v = ParseMoney(RawStr(r, "str"));
        o.pushKV("ok", v.has_value());
        o.pushKV("n", v ? *v : int64_t{0});
    }
    return o;
}

template <typename T>
void PushInt(UniValue& o, const std::string& s, size_t base)
{
    auto v = ToIntegral<T>(s, base);
    o.pushKV("ok", v.has_value());
    if constexpr (std::is_signed_v<T>) o.pushKV("n", v ? int64_t{*v} : int64_t{0});
    else o.pushKV("n", v ? uint64_t{*v} : uint64_t{0});
}

/** {"op":"parse_int","type":"i8|u8|i16|u16|i32|u32|i64|u64","str"|"str_hex","base":10|16?} -> {"ok":bool,"n":int}   (ToIntegral<T>)
 *  {"op":"parse_int","type":"atoi32|atoi64", "str"} -> {"n":int}   (LocaleIndependentAtoi<T>) */
OP(parse_int)
{
    const std::string t = Str(r, "type"), s = RawStr(r, "str");
    const size_t base = static_cast<size_t>(I64d(r, "base", 10));
    UniValue o = Obj();
    if (t == "i8") PushInt<int8_t>(o, s, base);
    else if (t == "u8") PushInt<uint8_t>(o, s, base);
    else if (t == "i16") PushInt<int16_t>(o, s, base);
    else if (t == "u16") PushInt<uint16_t>(o, s, base);
    else if (t == "i32") PushInt<int32_t>(o, s, base);
    else if (t == "u32") PushInt<uint32_t>(o, s, base);
    else if (t == "i64") PushInt<int64_t>(o, s, base);
    else if (t == "u64") PushInt<uint64_t>(o, s, base);
    else if (t == "atoi32") o.pushKV("n", int64_t{LocaleIndependentAtoi<int32_t>(s)});
    else if (t == "atoi64") o.pushKV("n", LocaleIndependentAtoi<int64_t>(s));
    else throw UsageError("unknown type " + t);
    return o;
}

// ------------------------------------------------------------------------------------------------------------
// serialization (C48)

template <typename T, typename W>
UniValue RoundTrip(const Bytes_t& data, W wrap, std::function<void(const T&, UniValue&)> extra = {})
{
    UniValue o = Obj();
    DataStream ds{std::span<const unsigned char>{data}};
    T obj;
    try {
        ds >> wrap(obj);
    } catch (const std::ios_base::failure& e) {
        o.pushKV("ok", false);
        o.pushKV("err", std::string(e.what()));
        return o;
    }
    o.pushKV("ok", true);
    o.pushKV("remaining", uint64_t{ds.size()});
    DataStream out;
    out << wrap(obj);
    o.pushKV("reser", Hex(out));
    o.pushKV("sersize", uint64_t{GetSerializeSize(wrap(obj))});
    if (extra) extra(obj, o);
    return o;
}

struct HeadersMsg { // the "headers" payload as net_processing sends it: vector of blocks without transactions
    std::vector<CBlock> v;
    SERIALIZE_METHODS(HeadersMsg, obj) { READWRITE(TX_NO_WITNESS(obj.v)); }
};
struct LocatorMsg { // getheaders / getblocks payload as net_processing reads it
    CBlockLocator locator;
    uint256 hash_stop;
    SERIALIZE_METHODS(LocatorMsg, obj) { READWRITE(obj.locator, obj.hash_stop); }
};
struct SendCmpctMsg {
    bool announce{false};
    uint64_t version{0};
    SERIALIZE_METHODS(SendCmpctMsg, obj) { READWRITE(obj.announce, obj.version); }
};

void TxExtra(const CMutableTransaction& mtx, UniValue& o)
{
    const CTransaction tx(mtx);
    o.pushKV("txid", Hex(tx.GetHash().ToUint256()));   // internal byte order
    o.pushKV("wtxid", Hex(tx.GetWitnessHash().ToUint256()));
    o.pushKV("has_witness", tx.HasWitness());
    DataStream a, b;
    a << TX_NO_WITNESS(tx);
    b << TX_WITH_WITNESS(tx);
    o.pushKV("ser_nowit", Hex(a));
    o.pushKV("ser_wit", Hex(b));
    o.pushKV("total_size", uint64_t{tx.ComputeTotalSize()});
}

/** {"op":"deser","type":T,"data":hex} -> {"ok":false,"err":...} | {"ok":true,"remaining":n,"reser":hex,"sersize":n, ...type specific}
 *  T: tx (allow witness) | tx_nowit | block | block_nowit | header | headers | locator | getheaders | inv | addr | addrv2 |
 *     cmpctblock | getblocktxn | blocktxn | merkleblock | filterload | outpoint | txin | txout | compactsize | varint |
 *     sendcmpct | u64 | i64 | bytes (vector<unsigned char>) | scriptwitness */
OP(deser)
{
    const std::string t = Str(r, "type");
    const Bytes_t d = Bytes(r, "data");
    auto plain = [](auto& x) -> auto& { return x; };
    if (t == "tx") return RoundTrip<CMutableTransaction>(d, [](auto& x) { return TX_WITH_WITNESS(x); }, TxExtra);
    if (t == "tx_nowit") return RoundTrip<CMutableTransaction>(d, [](auto& x) { return TX_NO_WITNESS(x); }, TxExtra);
    if (t == "block" || t == "block_nowit") {
        auto extra = [](const CBlock& b, UniValue& o) {
            o.pushKV("hash", Hex(b.GetHash()));
            UniValue txids(UniValue::VARR), wtxids(UniValue::VARR);
            for (auto& tx : b.vtx) { txids.push_back(Hex(tx->GetHash().ToUint256())); wtxids.push_back(Hex(tx->GetWitnessHash().ToUint256())); }
            o.pushKV("txids", txids);
            o.pushKV("wtxids", wtxids);
            DataStream a;
            a << TX_NO_WITNESS(b);
            o.pushKV("ser_nowit", Hex(a));
        };
        if (t == "block") return RoundTrip<CBlock>(d, [](auto& x) { return TX_WITH_WITNESS(x); }, extra);
        return RoundTrip<CBlock>(d, [](auto& x) { return TX_NO_WITNESS(x); }, extra);
    }
    if (t == "header") return RoundTrip<CBlockHeader>(d, plain, [](const CBlockHeader& h, UniValue& o) { o.pushKV("hash", Hex(h.GetHash())); });
    if (t == "headers") return RoundTrip<HeadersMsg>(d, plain);
    if (t == "locator") return RoundTrip<CBlockLocator>(d, plain);
    if (t == "getheaders") return RoundTrip<LocatorMsg>(d, plain);
    if (t == "inv") return RoundTrip<std::vector<CInv>>(d, plain);
    if (t == "addr") return RoundTrip<std::vector<CAddress>>(d, [](auto& x) { return CAddress::V1_NETWORK(x); });
    if (t == "addrv2") return RoundTrip<std::vector<CAddress>>(d, [](auto& x) { return CAddress::V2_NETWORK(x); });
    if (t == "cmpctblock") return RoundTrip<CBlockHeaderAndShortTxIDs>(d, plain);
    if (t == "getblocktxn") return RoundTrip<BlockTransactionsRequest>(d, plain);
    if (t == "blocktxn") return RoundTrip<BlockTransactions>(d, plain);
    if (t == "merkleblock") return RoundTrip<CMerkleBlock>(d, plain);
    if (t == "filterload") return RoundTrip<CBloomFilter>(d, plain);
    if (t == "outpoint") return RoundTrip<COutPoint>(d, plain);
    if (t == "txin") return RoundTrip<CTxIn>(d, plain);
    if (t == "txout") return RoundTrip<CTxOut>(d, plain);
    if (t == "sendcmpct") return RoundTrip<SendCmpctMsg>(d, plain);
    if (t == "bytes") return RoundTrip<Bytes_t>(d, plain);
    if (t == "scriptwitness") return RoundTrip<std::vector<Bytes_t>>(d, plain);
    if (t == "u64") return RoundTrip<uint64_t>(d, plain, [](const uint64_t& v, UniValue& o) { o.pushKV("n", v); });
    if (t == "i64") return RoundTrip<int64_t>(d, plain, [](const int64_t& v, UniValue& o) { o.pushKV("n", v); });
    if (t == "compactsize" || t == "compactsize_norange") {
        UniValue o = Obj();
        DataStream ds{std::span<const unsigned char>{d}};
        try {
            uint64_t v = ReadCompactSize(ds, /*range_check=*/t == "compactsize");
            o.pushKV("ok", true);
            o.pushKV("n", v);
            o.pushKV("remaining", uint64_t{ds.size()});
            DataStream out;
            WriteCompactSize(out, v);
            o.pushKV("reser", Hex(out));
        } catch (const std::ios_base::failure& e) {
            o.pushKV("ok", false);
            o.pushKV("err", std::string(e.what()));
        }
        return o;
    }
    if (t == "varint") {
        UniValue o = Obj();
        DataStream ds{std::span<const unsigned char>{d}};
        try {
            uint64_t v = ReadVarInt<DataStream, VarIntMode::DEFAULT, uint64_t>(ds);
            o.pushKV("ok", true);
            o.pushKV("n", v);
            o.pushKV("remaining", uint64_t{ds.size()});
            DataStream out;
            out << VARINT(v);
            o.pushKV("reser", Hex(out));
        } catch (const std::ios_base::failure& e) {
            o.pushKV("ok", false);
            o.pushKV("err", std::string(e.what()));
        }
        return o;
    }
    throw UsageError("unknown type " + t);
}

// ------------------------------------------------------------------------------------------------------------
// secp256k1 / keys (C50)

CKey KeyFrom(const Bytes_t& k, bool compressed)
{
    CKey key;
    key.Set(k.begin(), k.end(), compressed);
    return key;
}

/** {"op":"key_info","key":hex32,"compressed":bool} -> {"valid":bool,"pub":hex,"xonly":hex32 (if valid)} */
OP(key_info)
{
    const Bytes_t k = BytesN(r, "key", 32);
    CKey key = KeyFrom(k, Bool(r, "compressed", true));
    UniValue o = Obj();
    o.pushKV("valid", key.IsValid());
    if (key.IsValid()) {
        CPubKey pub = key.GetPubKey();
        o.pushKV("pub", Hex(pub));
        o.pushKV("xonly", Hex(XOnlyPubKey(pub)));
        o.pushKV("verify_pubkey", key.VerifyPubKey(pub));
    }
    return o;
}

/** {"op":"pub_info","pub":hex} -> {"valid_size":bool,"fully_valid":bool,"compressed_flag":bool,"decompressed":hex|"","lib_compressed":hex|"","lib_uncompressed":hex|""} */
OP(pub_info)
{
    const Bytes_t p = Bytes(r, "pub");
    CPubKey pub(p);
    UniValue o = Obj();
    o.pushKV("valid_size", pub.IsValid());
    o.pushKV("fully_valid", pub.IsFullyValid());
    o.pushKV("compressed_flag", pub.IsCompressed());
    o.pushKV("nonhybrid", pub.IsValidNonHybrid());
    CPubKey d = pub;
    o.pushKV("decompressed", d.Decompress() ? Hex(d) : std::string());
    secp256k1_pubkey pk;
    std::string lc, lu;
    if (secp256k1_ec_pubkey_parse(secp256k1_context_static, &pk, P(p), p.size())) {
        unsigned char buf[65];
        size_t n = 33;
        secp256k1_ec_pubkey_serialize(secp256k1_context_static, buf, &n, &pk, SECP256K1_EC_COMPRESSED);
        lc = HexStr(std::span<const unsigned char>(buf, n));
        n = 65;
        secp256k1_ec_pubkey_serialize(secp256k1_context_static, buf, &n, &pk, SECP256K1_EC_UNCOMPRESSED);
        lu = HexStr(std::span<const unsigned char>(buf, n));
    }
    o.pushKV("lib_compressed", lc);
    o.pushKV("lib_uncompressed", lu);
    if (p.size() == 32) o.pushKV("xonly_valid", XOnlyPubKey(p).IsFullyValid());
    return o;
}

/** {"op":"ecdsa_sign","key":hex32,"msg":hex32,"grind":bool,"test_case":n,"compressed":bool?} -> {"ok":bool,"sig":hex (DER),"compact":hex65} */
OP(ecdsa_sign)
{
    CKey key = KeyFrom(BytesN(r, "key", 32), Bool(r, "compressed", true));
    UniValue o = Obj();
    if (!key.IsValid()) { o.pushKV("ok", false); return o; }
    Bytes_t sig, compact;
    bool ok = key.Sign(U256(r, "msg"), sig, Bool(r, "grind", true), static_cast<uint32_t>(I64d(r, "test_case", 0)));
    o.pushKV("ok", ok);
    o.pushKV("sig", Hex(sig));
    if (key.SignCompact(U256(r, "msg"), compact)) o.pushKV("compact", Hex(compact));
    return o;
}

/** {"op":"ecdsa_verify","pub":hex,"msg":hex32,"sig":hex} ->
 *  {"consensus":bool (CPubKey::Verify: lax DER, normalizes S), "low_s":bool (CPubKey::CheckLowS),
 *   "strict_parse":bool (secp256k1_ecdsa_signature_parse_der), "strict":bool (library verify of the strictly parsed sig, no normalization)} */
OP(ecdsa_verify)
{
    const Bytes_t p = Bytes(r, "pub"), sig = Bytes(r, "sig");
    const uint256 msg = U256(r, "msg");
    CPubKey pub(p);
    UniValue o = Obj();
    o.pushKV("consensus", pub.Verify(msg, sig));
    o.pushKV("low_s", CPubKey::CheckLowS(sig));
    secp256k1_ecdsa_signature s;
    secp256k1_pubkey pk;
    bool parsed = secp256k1_ecdsa_signature_parse_der(secp256k1_context_static, &s, P(sig), sig.size());
    o.pushKV("strict_parse", parsed);
    bool strict = false;
    if (parsed && secp256k1_ec_pubkey_parse(secp256k1_context_static, &pk, P(p), p.size())) {
        strict = secp256k1_ecdsa_verify(secp256k1_context_static, &s, msg.begin(), &pk);
    }
    o.pushKV("strict", strict);
    return o;
}

/** {"op":"recover_compact","msg":hex32,"sig":hex65} -> {"ok":bool,"pub":hex} */
OP(recover_compact)
{
    CPubKey pub;
    bool ok = pub.RecoverCompact(U256(r, "msg"), Bytes(r, "sig"));
    UniValue o = Obj();
    o.pushKV("ok", ok);
    o.pushKV("pub", ok ? Hex(pub) : std::string());
    return o;
}

std::optional<uint256> OptU256(const UniValue& r, const std::string& k)
{
    if (!Has(r, k)) return std::nullopt;
    return U256(r, k);
}

/** {"op":"schnorr_sign","key":hex32,"msg":hex32,"aux":hex32,"merkle_root":hex32? (absent = no tweak; 32 zero bytes = tweak without script tree)} -> {"ok":bool,"sig":hex64} */
OP(schnorr_sign)
{
    CKey key = KeyFrom(BytesN(r, "key", 32), true);
    UniValue o = Obj();
    if (!key.IsValid()) { o.pushKV("ok", false); return o; }
    Bytes_t sig(64);
    auto mr = OptU256(r, "merkle_root");
    bool ok = key.SignSchnorr(U256(r, "msg"), sig, mr ? &*mr : nullptr, U256(r, "aux"));
    o.pushKV("ok", ok);
    o.pushKV("sig", Hex(sig));
    return o;
}

/** {"op":"schnorr_verify","pub":hex32,"msg":hex32,"sig":hex64} -> {"ok":bool} */
OP(schnorr_verify)
{
    XOnlyPubKey pub(BytesN(r, "pub", 32));
    UniValue o = Obj();
    o.pushKV("ok", pub.VerifySchnorr(U256(r, "msg"), BytesN(r, "sig", 64)));
    o.pushKV("pub_valid", pub.IsFullyValid());
    return o;
}

/** {"op":"taptweak","internal":hex32,"merkle_root":hex32?} -> {"tweak":hex32,"ok":bool,"output":hex32,"parity":bool}
 *  plus, if "check":{"output":hex32,"parity":bool} and merkle_root given: "check": CheckTapTweak result */
OP(taptweak)
{
    XOnlyPubKey internal(BytesN(r, "internal", 32));
    auto mr = OptU256(r, "merkle_root");
    UniValue o = Obj();
    o.pushKV("tweak", Hex(internal.ComputeTapTweakHash(mr ? &*mr : nullptr)));
    auto t = internal.CreateTapTweak(mr ? &*mr : nullptr);
    o.pushKV("ok", t.has_value());
    if (t) {
        o.pushKV("output", Hex(t->first));
        o.pushKV("parity", t->second);
    }
    if (Has(r, "check") && mr) {
        const UniValue& c = Field(r, "check");
        XOnlyPubKey out(BytesN(c, "output", 32));
        o.pushKV("check", out.CheckTapTweak(internal, *mr, Bool(c, "parity", false)));
    }
    return o;
}

/** {"op":"keypair_tweak","key":hex32,"merkle_root":hex32?} -> {"ok":bool}; signs msg with the (tweaked) keypair: see schnorr_sign. */

/** {"op":"ellswift_create","key":hex32,"entropy":hex32} -> {"ok":bool,"ellswift":hex64}
 *  {"op":"ellswift_decode","ellswift":hex64} -> {"pub":hex33}
 *  {"op":"bip324_ecdh","key":hex32,"ours":hex64,"theirs":hex64,"initiating":bool} -> {"ok":bool,"secret":hex32} */
OP(ellswift_create)
{
    CKey key = KeyFrom(BytesN(r, "key", 32), true);
    UniValue o = Obj();
    if (!key.IsValid()) { o.pushKV("ok", false); return o; }
    const Bytes_t ent = BytesN(r, "entropy", 32);
    EllSwiftPubKey e = key.EllSwiftCreate(AsB(ent));
    o.pushKV("ok", true);
    o.pushKV("ellswift", Hex(e));
    return o;
}

OP(ellswift_decode)
{
    const Bytes_t e = BytesN(r, "ellswift", 64);
    EllSwiftPubKey ep{AsB(e)};
    UniValue o = Obj();
    o.pushKV("pub", Hex(ep.Decode()));
    return o;
}

OP(bip324_ecdh)
{
    CKey key = KeyFrom(BytesN(r, "key", 32), true);
    UniValue o = Obj();
    if (!key.IsValid()) { o.pushKV("ok", false); return o; }
    const Bytes_t ours = BytesN(r, "ours", 64), theirs = BytesN(r, "theirs", 64);
    ECDHSecret s = key.ComputeBIP324ECDHSecret(EllSwiftPubKey{AsB(theirs)}, EllSwiftPubKey{AsB(ours)}, Bool(r, "initiating", true));
    o.pushKV("ok", true);
    o.pushKV("secret", Hex(s));
    return o;
}

// ------------------------------------------------------------------------------------------------------------
// sighash / script verification (C10)

const std::map<std::string, script_verify_flag_name>& FlagNames()
{
    static const std::map<std::string, script_verify_flag_name> m{
        {"P2SH", SCRIPT_VERIFY_P2SH}, {"STRICTENC", SCRIPT_VERIFY_STRICTENC}, {"DERSIG", SCRIPT_VERIFY_DERSIG}, {"LOW_S", SCRIPT_VERIFY_LOW_S},
        {"NULLDUMMY", SCRIPT_VERIFY_NULLDUMMY}, {"SIGPUSHONLY", SCRIPT_VERIFY_SIGPUSHONLY}, {"MINIMALDATA", SCRIPT_VERIFY_MINIMALDATA},
        {"DISCOURAGE_UPGRADABLE_NOPS", SCRIPT_VERIFY_DISCOURAGE_UPGRADABLE_NOPS}, {"CLEANSTACK", SCRIPT_VERIFY_CLEANSTACK},
        {"CHECKLOCKTIMEVERIFY", SCRIPT_VERIFY_CHECKLOCKTIMEVERIFY}, {"CHECKSEQUENCEVERIFY", SCRIPT_VERIFY_CHECKSEQUENCEVERIFY},
        {"WITNESS", SCRIPT_VERIFY_WITNESS}, {"DISCOURAGE_UPGRADABLE_WITNESS_PROGRAM", SCRIPT_VERIFY_DISCOURAGE_UPGRADABLE_WITNESS_PROGRAM},
        {"MINIMALIF", SCRIPT_VERIFY_MINIMALIF}, {"NULLFAIL", SCRIPT_VERIFY_NULLFAIL}, {"WITNESS_PUBKEYTYPE", SCRIPT_VERIFY_WITNESS_PUBKEYTYPE},
        {"CONST_SCRIPTCODE", SCRIPT_VERIFY_CONST_SCRIPTCODE}, {"TAPROOT", SCRIPT_VERIFY_TAPROOT},
        {"DISCOURAGE_UPGRADABLE_TAPROOT_VERSION", SCRIPT_VERIFY_DISCOURAGE_UPGRADABLE_TAPROOT_VERSION},
        {"DISCOURAGE_OP_SUCCESS", SCRIPT_VERIFY_DISCOURAGE_OP_SUCCESS},
        {"DISCOURAGE_UPGRADABLE_PUBKEYTYPE", SCRIPT_VERIFY_DISCOURAGE_UPGRADABLE_PUBKEYTYPE},
    };
    return m;
}

script_verify_flags ParseFlags(const UniValue& r)
{
    script_verify_flags f = SCRIPT_VERIFY_NONE;
    const UniValue& a = Field(r, "flags").get_array();
    for (size_t i = 0; i < a.size(); ++i) {
        auto it = FlagNames().find(a[i].get_str());
        if (it == FlagNames().end()) throw UsageError("unknown flag " + a[i].get_str());
        f |= it->second;
    }
    return f;
}

CMutableTransaction TxFrom(const UniValue& r)
{
    const Bytes_t d = Bytes(r, "tx");
    DataStream ds{std::span<const unsigned char>{d}};
    CMutableTransaction mtx;
    ds >> TX_WITH_WITNESS(mtx);
    if (!ds.empty()) throw UsageError("trailing bytes after tx");
    return mtx;
}

std::vector<CTxOut> SpentFrom(const UniValue& r)
{
    std::vector<CTxOut> v;
    if (!Has(r, "spent")) return v;
    const UniValue& a = Field(r, "spent").get_array();
    for (size_t i = 0; i < a.size(); ++i) {
        Bytes_t spk = Bytes(a[i], "spk");
        v.emplace_back(I64(a[i], "amount"), CScript(spk.begin(), spk.end()));
    }
    return v;
}

SigVersion SigVer(const std::string& s)
{
    if (s == "base") return SigVersion::BASE;
    if (s == "witness_v0") return SigVersion::WITNESS_V0;
    if (s == "taproot") return SigVersion::TAPROOT;
    if (s == "tapscript") return SigVersion::TAPSCRIPT;
    throw UsageError("unknown sigversion " + s);
}

/** ECDSA:   {"op":"sighash","sigversion":"base|witness_v0","tx":hex,"idx":n,"script":hex,"amount":n,"hashtype":int32,
 *            "precomputed":bool? (pass PrecomputedTransactionData initialised from "spent"), "queries":[[script_hex,hashtype],...]? }
 *           -> {"hash":hex32, "cached":[hex32,...]}  "cached": the queries answered in order through ONE SigHashCache object (then the
 *           main query once more through the same cache, appended last).
 *  Schnorr: {"op":"sighash","sigversion":"taproot|tapscript","tx","idx","hashtype":uint8,"spent":[{"amount","spk"},...],
 *            "annex":hex? (full annex incl. 0x50), "leaf_script":hex,"leaf_ver":n,"codesep_pos":n (tapscript), "force":bool?}
 *           -> {"ok":bool,"hash":hex32} */
OP(sighash)
{
    const SigVersion sv = SigVer(Str(r, "sigversion"));
    const CMutableTransaction mtx = TxFrom(r);
    const CTransaction tx(mtx);
    const unsigned idx = static_cast<unsigned>(U64(r, "idx"));
    if (idx >= tx.vin.size()) throw UsageError("idx out of range (precondition of SignatureHash)");
    UniValue o = Obj();
    if (sv == SigVersion::BASE || sv == SigVersion::WITNESS_V0) {
        const Bytes_t sc = Bytes(r, "script");
        const CScript script(sc.begin(), sc.end());
        const int32_t ht = static_cast<int32_t>(I64(r, "hashtype"));
        const CAmount amount = I64d(r, "amount", 0);
        PrecomputedTransactionData txdata;
        const bool pre = Bool(r, "precomputed", false);
        if (pre) txdata.Init(tx, SpentFrom(r), /*force=*/true);
        o.pushKV("hash", Hex(SignatureHash(script, tx, idx, ht, amount, sv, pre ? &txdata : nullptr, nullptr)));
        if (Has(r, "queries")) {
            SigHashCache cache;
            UniValue outs(UniValue::VARR);
            const UniValue& q = Field(r, "queries").get_array();
            for (size_t i = 0; i < q.size(); ++i) {
                Bytes_t s = HexToBytes(q[i][0].get_str(), "queries");
                outs.push_back(Hex(SignatureHash(CScript(s.begin(), s.end()), tx, idx, static_cast<int32_t>(q[i][1].getInt<int64_t>()), amount, sv, pre ? &txdata : nullptr, &cache)));
            }
            outs.push_back(Hex(SignatureHash(script, tx, idx, ht, amount, sv, pre ? &txdata : nullptr, &cache)));
            o.pushKV("cached", outs);
        }
        return o;
    }
    PrecomputedTransactionData txdata;
    txdata.Init(tx, SpentFrom(r), Bool(r, "force", true));
    ScriptExecutionData ed;
    ed.m_annex_init = true;
    if (auto annex = OptBytes(r, "annex")) {
        ed.m_annex_present = true;
        ed.m_annex_hash = (HashWriter{} << *annex).GetSHA256();
    } else {
        ed.m_annex_present = false;
    }
    if (sv == SigVersion::TAPSCRIPT) {
        ed.m_tapleaf_hash_init = true;
        ed.m_tapleaf_hash = ComputeTapleafHash(static_cast<uint8_t>(I64d(r, "leaf_ver", 0xc0)), Bytes(r, "leaf_script"));
        ed.m_codeseparator_pos_init = true;
        ed.m_codeseparator_pos = static_cast<uint32_t>(I64d(r, "codesep_pos", 0xffffffff));
    }
    uint256 h;
    bool ok = SignatureHashSchnorr(h, ed, tx, idx, static_cast<uint8_t>(U64(r, "hashtype")), sv, txdata, MissingDataBehavior::FAIL);
    o.pushKV("ok", ok);
    o.pushKV("hash", ok ? Hex(h) : std::string());
    return o;
}

/** {"op":"verify_script","tx":hex (with witness),"idx":n,"spent":[{"amount":n,"spk":hex},...] (one per input),"flags":["P2SH","WITNESS",...],
 *   "force":bool? (PrecomputedTransactionData::Init force; default false like validation)}
 *  -> {"ok":bool,"err":"<ScriptErrorString>"}: VerifyScript(vin[idx].scriptSig, spent[idx].spk, witness, flags, TransactionSignatureChecker) */
OP(verify_script)
{
    const CMutableTransaction mtx = TxFrom(r);
    const CTransaction tx(mtx);
    const unsigned idx = static_cast<unsigned>(U64(r, "idx"));
    std::vector<CTxOut> spent = SpentFrom(r);
    if (idx >= tx.vin.size() || spent.size() != tx.vin.size()) throw UsageError("idx/spent do not match the transaction");
    const CTxOut prev = spent[idx];
    PrecomputedTransactionData txdata;
    txdata.Init(tx, std::move(spent), Bool(r, "force", false));
    ScriptError err = SCRIPT_ERR_UNKNOWN_ERROR;
    GenericTransactionSignatureChecker<CTransaction> checker(&tx, idx, prev.nValue, txdata, MissingDataBehavior::FAIL);
    bool ok = VerifyScript(tx.vin[idx].scriptSig, prev.scriptPubKey, &tx.vin[idx].scriptWitness, ParseFlags(r), checker, &err);
    UniValue o = Obj();
    o.pushKV("ok", ok);
    o.pushKV("err", ScriptErrorString(err));
    return o;
}

/** {"op":"tapleaf_hash","leaf_ver":n,"script":hex} -> {"hash":hex32};  {"op":"taproot_merkle_root","control":hex,"leaf_hash":hex32} -> {"root":hex32} */
OP(tapleaf_hash)
{
    UniValue o = Obj();
    o.pushKV("hash", Hex(ComputeTapleafHash(static_cast<uint8_t>(U64(r, "leaf_ver")), Bytes(r, "script"))));
    return o;
}

OP(taproot_merkle_root)
{
    const Bytes_t control = Bytes(r, "control");
    if (control.size() < 33 || (control.size() - 33) % 32) throw UsageError("bad control block size");
    UniValue o = Obj();
    o.pushKV("root", Hex(ComputeTaprootMerkleRoot(control, U256(r, "leaf_hash"))));
    return o;
}

/** {"op":"eval_script","script":hex,"stack":[hex,...],"flags":[...],"sigversion":"base|witness_v0|tapscript",
 *   optional "tx":hex,"idx":n,"spent":[{"amount","spk"},...] (absent: BaseSignatureChecker, every signature check fails)}
 *  -> {"ok":bool,"err":ScriptErrorString,"stack":[hex,...] (final stack, also on failure)}   (EvalScript, 6-argument overload) */
OP(eval_script)
{
    const Bytes_t sc = Bytes(r, "script");
    const CScript script(sc.begin(), sc.end());
    std::vector<Bytes_t> stack;
    if (Has(r, "stack")) {
        const UniValue& a = Field(r, "stack").get_array();
        for (size_t i = 0; i < a.size(); ++i) stack.push_back(HexToBytes(a[i].get_str(), "stack"));
    }
    const SigVersion sv = SigVer(Str(r, "sigversion"));
    ScriptError err = SCRIPT_ERR_UNKNOWN_ERROR;
    bool ok;
    if (Has(r, "tx")) {
        const CMutableTransaction mtx = TxFrom(r);
        const CTransaction tx(mtx);
        const unsigned idx = static_cast<unsigned>(U64(r, "idx"));
        std::vector<CTxOut> spent = SpentFrom(r);
        if (idx >= tx.vin.size() || spent.size() != tx.vin.size()) throw UsageError("idx/spent do not match the transaction");
        const CAmount amount = spent[idx].nValue;
        PrecomputedTransactionData txdata;
        txdata.Init(tx, std::move(spent), Bool(r, "force", false));
        GenericTransactionSignatureChecker<CTransaction> checker(&tx, idx, amount, txdata, MissingDataBehavior::FAIL);
        ok = EvalScript(stack, script, ParseFlags(r), checker, sv, &err);
    } else {
        BaseSignatureChecker checker;
        ok = EvalScript(stack, script, ParseFlags(r), checker, sv, &err);
    }
    UniValue st(UniValue::VARR);
    for (auto& e : stack) st.push_back(Hex(e));
    UniValue o = Obj();
    o.pushKV("ok", ok);
    o.pushKV("err", ScriptErrorString(err));
    o.pushKV("stack", st);
    return o;
}

/** {"op":"bip32","seed":hex (16..64 bytes),"path":[uint32,...]} -> {"steps":[{"ok":bool,"xprv":hex74,"xpub":hex74,"pub_derive_ok":bool,
 *   "xpub_from_pub":hex74|""},...]}: step 0 = master (CExtKey::SetSeed); step i = Derive(path[i-1]) of step i-1; xpub = Neuter();
 *   xpub_from_pub = CExtPubKey::Derive of the previous step's neutered key (only attempted for unhardened indexes). Stops at the first failed Derive. */
OP(bip32)
{
    const Bytes_t seed = Bytes(r, "seed");
    CExtKey cur;
    cur.SetSeed(AsB(seed));
    UniValue steps(UniValue::VARR);
    auto push = [&](const CExtKey& k, bool ok, bool pub_ok, const std::string& from_pub) {
        UniValue e = Obj();
        e.pushKV("ok", ok);
        if (ok) {
            unsigned char code[BIP32_EXTKEY_SIZE];
            k.Encode(code);
            e.pushKV("xprv", Hex(code));
            k.Neuter().Encode(code);
            e.pushKV("xpub", Hex(code));
        }
        e.pushKV("pub_derive_ok", pub_ok);
        e.pushKV("xpub_from_pub", from_pub);
        steps.push_back(e);
    };
    push(cur, true, false, "");
    const UniValue& path = Field(r, "path").get_array();
    for (size_t i = 0; i < path.size(); ++i) {
        const uint32_t idx = static_cast<uint32_t>(path[i].getInt<uint64_t>());
        bool pub_ok = false;
        std::string from_pub;
        if (idx < 0x80000000U) {
            CExtPubKey child;
            pub_ok = cur.Neuter().Derive(child, idx);
            if (pub_ok) {
                unsigned char code[BIP32_EXTKEY_SIZE];
                child.Encode(code);
                from_pub = Hex(code);
            }
        }
        CExtKey next;
        const bool ok = cur.Derive(next, idx);
        push(next, ok, pub_ok, from_pub);
        if (!ok) break;
        cur = next;
    }
    UniValue o = Obj();
    o.pushKV("steps", steps);
    return o;
}

/** {"op":"bech32","dir":"enc","hrp":str,"values":[0..31,...],"enc":"bech32|bech32m"} -> {"str":...}
 *  {"op":"bech32","dir":"dec","str":str (or "str_hex"),"limit":n? (default 90)} -> {"enc":"bech32|bech32m|invalid","hrp":str,"values":[...]} */
OP(bech32)
{
    UniValue o = Obj();
    if (Str(r, "dir") == "enc") {
        std::vector<uint8_t> vals;
        const UniValue& a = Field(r, "values").get_array();
        for (size_t i = 0; i < a.size(); ++i) vals.push_back(static_cast<uint8_t>(a[i].getInt<uint64_t>()));
        const std::string e = Str(r, "enc");
        if (e != "bech32" && e != "bech32m") throw UsageError("enc must be bech32 or bech32m");
        o.pushKV("str", bech32::Encode(e == "bech32" ? bech32::Encoding::BECH32 : bech32::Encoding::BECH32M, Str(r, "hrp"), vals));
        return o;
    }
    const auto res = bech32::Decode(RawStr(r, "str"), static_cast<bech32::CharLimit>(I64d(r, "limit", 90)));
    o.pushKV("enc", res.encoding == bech32::Encoding::BECH32 ? "bech32" : res.encoding == bech32::Encoding::BECH32M ? "bech32m" : "invalid");
    o.pushKV("hrp", res.hrp);
    UniValue vals(UniValue::VARR);
    for (uint8_t v : res.data) vals.push_back(int{v});
    o.pushKV("values", vals);
    return o;
}

/** {"op":"dest","dir":"enc","chain":"main|test|testnet4|signet|regtest","spk":hex} -> {"ok":bool (ExtractDestination),"addr":str (EncodeDestination)}
 *  {"op":"dest","dir":"dec","chain":...,"str":str} -> {"valid":bool,"spk":hex (GetScriptForDestination),"err":str}
 *  Selects the chain for the call and restores REGTEST afterwards. */
OP(dest)
{
    const auto chain = ChainTypeFromString(Str(r, "chain"));
    if (!chain) throw UsageError("unknown chain");
    struct Restore {
        ~Restore() { SelectParams(ChainType::REGTEST); }
    } restore;
    SelectParams(*chain);
    UniValue o = Obj();
    if (Str(r, "dir") == "enc") {
        const Bytes_t spk = Bytes(r, "spk");
        CTxDestination d;
        const bool ok = ExtractDestination(CScript(spk.begin(), spk.end()), d);
        o.pushKV("ok", ok);
        o.pushKV("addr", EncodeDestination(d));
        return o;
    }
    std::string err;
    const CTxDestination d = DecodeDestination(RawStr(r, "str"), err);
    const bool valid = IsValidDestination(d);
    o.pushKV("valid", valid);
    o.pushKV("spk", valid ? Hex(GetScriptForDestination(d)) : std::string());
    o.pushKV("err", err);
    return o;
}

} // namespace

int main()
{
    std::ios::sync_with_stdio(false);
    ECC_Context ecc;
    SelectParams(ChainType::REGTEST);
    SHA256AutoDetect();
    std::string line;
    while (std::getline(std::cin, line)) {
        if (line.empty()) continue;
        UniValue req, rep;
        try {
            if (!req.read(line) || !req.isObject()) throw UsageError("request is not a JSON object");
            const std::string op = Str(req, "op");
            auto it = Registry().find(op);
            if (it == Registry().end()) throw UsageError("unknown op '" + op + "'");
            rep = it->second(req);
        } catch (const std::exception& e) {
            rep = Obj();
            rep.pushKV("error", std::string(e.what()));
        }
        if (req.isObject() && Has(req, "id")) rep.pushKV("id", req.find_value("id"));
        std::cout << rep.write() << "\n" << std::flush;
    }
    return 0;
}
