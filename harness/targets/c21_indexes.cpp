// C21 — Indexes and UTXO statistics agree with recomputation from the active chain.
//
// Code under test: index/base.cpp (Sync / BlockConnected / Rewind / Commit), txindex, blockfilterindex (BASIC), coinstatsindex,
// txospenderindex on ON-DISK index databases of a ChainSim regtest node; kernel/coinstats.cpp (MuHash of the live UTXO set).
// Oracle (independent recomputation from the model's copy of the active chain, RefLedger):
//   * txindex: every transaction of every active block (height >= 1) is found, identical, with the ACTIVE block's hash;
//   * blockfilterindex: filter bytes == own BIP158 encoder (own SipHash-2-4, own Golomb-Rice bit writer, element set from the block's
//     outputs + the MODEL's spent scripts), header chain == SHA256d(SHA256d(filter) || prev), genesis prev = 0;
//   * txospenderindex: every outpoint spent on the active chain -> the active spending tx and its block; outpoints that are unspent on the
//     active chain (model UTXO at the tip, incl. those spent only on a disconnected branch) -> no spender;
//   * coinstatsindex: LookUpStats at EVERY active height == count / total amount / bogo size / MuHash recomputed from scratch from the
//     model UTXO at that height (own 3072-bit arithmetic with boost cpp_int; only SHA256 and ChaCha20 are reused as primitives);
//     ComputeUTXOStats(MUHASH) of the live coins DB == the same recomputation at the tip.
// Histories: blocks with transactions on any of up to 3 branches, reorgs (overtake), InvalidateBlock/Reconsider of the tip, chainstate
// flushes, and per-index life cycle ops: start (Init+Sync), Init without Sync (index lags behind and ignores notifications), background
// Sync interrupted after the index reached a generated height, destroy/recreate on the same on-disk DB (restart).
// Left out: restart of the whole node (block index / chainstate reload); blocks delivered concurrently with a running sync thread;
// pruning; the legacy txindex format; E2 cross-check against muhash.py (own C++ reference is used instead).
#include <engine/verif.h>
#include <kits/chainsim.h>

#include <blockfilter.h>
#include <crypto/chacha20.h>
#include <crypto/sha256.h>
#include <index/base.h>
#include <index/blockfilterindex.h>
#include <index/coinstatsindex.h>
#include <index/txindex.h>
#include <index/txospenderindex.h>
#include <interfaces/chain.h>
#include <kernel/coinstats.h>
#include <test/util/script.h>
#include <util/time.h>

#include <boost/multiprecision/cpp_int.hpp>

#include <chrono>
#include <map>
#include <set>
#include <thread>

using namespace verif;
// fixed-width, allocation-free big integers (arbitrary-precision cpp_int allocates for every temporary, which is very slow under ASan)
using cpp_int = boost::multiprecision::number<boost::multiprecision::cpp_int_backend<6400, 6400, boost::multiprecision::unsigned_magnitude, boost::multiprecision::unchecked, void>>;

namespace c21ref {

// ---------------------------------------------------------------- SHA256 helpers (primitive, trusted)
std::array<uint8_t, 32> Sha256(const uint8_t* p, size_t n)
{
    std::array<uint8_t, 32> o;
    CSHA256().Write(p, n).Finalize(o.data());
    return o;
}
std::array<uint8_t, 32> Sha256d(const uint8_t* p, size_t n)
{
    auto a = Sha256(p, n);
    return Sha256(a.data(), 32);
}

// ---------------------------------------------------------------- own SipHash-2-4 (from the reference description)
static inline uint64_t Rotl(uint64_t x, int b) { return (x << b) | (x >> (64 - b)); }
uint64_t SipHash24(uint64_t k0, uint64_t k1, const uint8_t* d, size_t n)
{
    uint64_t v0 = 0x736f6d6570736575ULL ^ k0, v1 = 0x646f72616e646f6dULL ^ k1, v2 = 0x6c7967656e657261ULL ^ k0, v3 = 0x7465646279746573ULL ^ k1;
    auto round = [&] {
        v0 += v1; v1 = Rotl(v1, 13); v1 ^= v0; v0 = Rotl(v0, 32);
        v2 += v3; v3 = Rotl(v3, 16); v3 ^= v2;
        v0 += v3; v3 = Rotl(v3, 21); v3 ^= v0;
        v2 += v1; v1 = Rotl(v1, 17); v1 ^= v2; v2 = Rotl(v2, 32);
    };
    size_t i = 0;
    for (; i + 8 <= n; i += 8) {
        uint64_t m = 0;
        for (int j = 0; j < 8; ++j) m |= uint64_t(d[i + j]) << (8 * j);
        v3 ^= m; round(); round(); v0 ^= m;
    }
    uint64_t m = uint64_t(n & 0xff) << 56;
    for (int j = 0; i + j < n; ++j) m |= uint64_t(d[i + j]) << (8 * j);
    v3 ^= m; round(); round(); v0 ^= m;
    v2 ^= 0xff;
    round(); round(); round(); round();
    return v0 ^ v1 ^ v2 ^ v3;
}

// ---------------------------------------------------------------- own BIP158 basic filter encoder
struct BitWriter {
    std::vector<uint8_t> out;
    int used{8}; // bits used in the last byte
    void Bit(int b)
    {
        if (used == 8) { out.push_back(0); used = 0; }
        if (b) out.back() |= uint8_t(0x80 >> used);
        ++used;
    }
    void Bits(uint64_t v, int n) { for (int i = n - 1; i >= 0; --i) Bit(int((v >> i) & 1)); }
};

void PutCompactSize(std::vector<uint8_t>& o, uint64_t n)
{
    if (n < 253) o.push_back(uint8_t(n));
    else if (n <= 0xffff) { o.push_back(253); o.push_back(uint8_t(n)); o.push_back(uint8_t(n >> 8)); }
    else if (n <= 0xffffffffULL) { o.push_back(254); for (int i = 0; i < 4; ++i) o.push_back(uint8_t(n >> (8 * i))); }
    else { o.push_back(255); for (int i = 0; i < 8; ++i) o.push_back(uint8_t(n >> (8 * i))); }
}

std::vector<uint8_t> Bip158Basic(const uint256& block_hash, const std::set<std::vector<uint8_t>>& elements)
{
    const int P = 19;
    const uint64_t M = 784931;
    uint64_t k0 = 0, k1 = 0;
    for (int j = 0; j < 8; ++j) { k0 |= uint64_t(block_hash.data()[j]) << (8 * j); k1 |= uint64_t(block_hash.data()[8 + j]) << (8 * j); }
    const uint64_t N = elements.size();
    const uint64_t F = N * M;
    std::vector<uint64_t> vals;
    for (auto& e : elements) {
        uint64_t h = SipHash24(k0, k1, e.data(), e.size());
        vals.push_back(uint64_t((static_cast<unsigned __int128>(h) * F) >> 64));
    }
    std::sort(vals.begin(), vals.end());
    std::vector<uint8_t> out;
    PutCompactSize(out, N);
    BitWriter bw;
    uint64_t prev = 0;
    for (uint64_t v : vals) {
        uint64_t d = v - prev;
        prev = v;
        for (uint64_t q = d >> P; q > 0; --q) bw.Bit(1);
        bw.Bit(0);
        bw.Bits(d & ((uint64_t{1} << P) - 1), P);
    }
    out.insert(out.end(), bw.out.begin(), bw.out.end());
    return out;
}

// ---------------------------------------------------------------- own MuHash3072 (cpp_int arithmetic)
const cpp_int& MuP()
{
    static const cpp_int p = (cpp_int(1) << 3072) - 1103717;
    return p;
}
cpp_int MuMul(const cpp_int& a, const cpp_int& b)
{
    static const cpp_int mask = (cpp_int(1) << 3072) - 1;
    cpp_int t = a * b;
    while ((t >> 3072) != 0) t = (t & mask) + (t >> 3072) * 1103717;
    if (t >= MuP()) t -= MuP();
    return t;
}
/** element -> 3072-bit number: SHA256(data) keys ChaCha20 (nonce 0, counter 0); 384 keystream bytes, little endian */
cpp_int MuElement(const std::vector<uint8_t>& data)
{
    auto key = Sha256(data.data(), data.size());
    std::array<std::byte, 384> ks;
    ChaCha20 c{std::span<const std::byte>{reinterpret_cast<const std::byte*>(key.data()), 32}};
    c.Keystream(ks);
    cpp_int v = 0;
    for (int i = 383; i >= 0; --i) { v <<= 8; v |= unsigned(ks[i]); }
    return v % MuP();
}
cpp_int MuInverse(const cpp_int& a) { return boost::multiprecision::powm(a, cpp_int(MuP() - 2), MuP()); } // Fermat
uint256 MuFinalize(const cpp_int& v)
{
    uint8_t b[384];
    cpp_int t = v % MuP();
    for (int i = 0; i < 384; ++i) { b[i] = uint8_t(unsigned(t & 0xff)); t >>= 8; }
    auto h = Sha256(b, 384);
    uint256 r;
    memcpy(r.data(), h.data(), 32);
    return r;
}

/** the byte string hashed per coin (format of the UTXO statistics: outpoint, height*2+coinbase as uint32, amount, script with length) */
std::vector<uint8_t> CoinBytes(const COutPoint& op, const RefCoin& c)
{
    std::vector<uint8_t> o(op.hash.ToUint256().begin(), op.hash.ToUint256().end());
    for (int i = 0; i < 4; ++i) o.push_back(uint8_t(op.n >> (8 * i)));
    uint32_t code = (uint32_t(c.height) << 1) | uint32_t(c.coinbase);
    for (int i = 0; i < 4; ++i) o.push_back(uint8_t(code >> (8 * i)));
    uint64_t v = uint64_t(c.value);
    for (int i = 0; i < 8; ++i) o.push_back(uint8_t(v >> (8 * i)));
    PutCompactSize(o, c.spk.size());
    o.insert(o.end(), c.spk.begin(), c.spk.end());
    return o;
}

} // namespace c21ref

namespace {

void init() {}

/** VERIF_C21_TIMING=1: print phase timings to stderr (diagnostics only, never influences a verdict) */
struct Phase {
    const char* name;
    std::chrono::steady_clock::time_point t0{std::chrono::steady_clock::now()};
    explicit Phase(const char* n) : name(n) {}
    ~Phase()
    {
        static const bool on = std::getenv("VERIF_C21_TIMING") != nullptr;
        if (on) fprintf(stderr, "[c21-timing] %s %.1f ms\n", name, std::chrono::duration<double, std::milli>(std::chrono::steady_clock::now() - t0).count());
    }
};

enum Kind { TXI = 0, BFI = 1, CSI = 2, SPI = 3, NKIND = 4 };
const char* KIND_NAMES[NKIND] = {"txindex", "filterindex", "coinstats", "spender"};

struct Slot {
    std::unique_ptr<BaseIndex> obj;
    bool synced{false};   //!< Sync() completed at least once for this object
    bool lagging{false};  //!< the chain moved while the object existed unsynced or did not exist (index is behind)
    bool reorg_while_behind{false};
    int restarts{0};
};

struct Harness {
    ChainSim& sim;
    Stats& st;
    Slot slot[NKIND];
    std::map<std::vector<uint8_t>, cpp_int> elem_cache;

    Harness(ChainSim& s_, Stats& st_) : sim(s_), st(st_) {}

    TxIndex* Tx() { return static_cast<TxIndex*>(slot[TXI].obj.get()); }
    BlockFilterIndex* Bf() { return static_cast<BlockFilterIndex*>(slot[BFI].obj.get()); }
    CoinStatsIndex* Cs() { return static_cast<CoinStatsIndex*>(slot[CSI].obj.get()); }
    TxoSpenderIndex* Sp() { return static_cast<TxoSpenderIndex*>(slot[SPI].obj.get()); }

    void NoFatal(const char* where)
    {
        VCHECK(sim.m_node.exit_status.load() == 0, "c21.index-fatal", "an index (or the node) raised a fatal error during", where);
    }
    void Create(int k)
    {
        Phase ph("create+init");
        Slot& s = slot[k];
        assert(!s.obj);
        auto chain = interfaces::MakeChain(sim.m_node);
        const size_t cache = 1 << 20;
        switch (k) {
        case TXI: s.obj = std::make_unique<TxIndex>(std::move(chain), cache, /*f_memory=*/false, /*f_wipe=*/false); break;
        case BFI: s.obj = std::make_unique<BlockFilterIndex>(std::move(chain), BlockFilterType::BASIC, cache, false, false); break;
        case CSI: s.obj = std::make_unique<CoinStatsIndex>(std::move(chain), cache, false, false); break;
        default: s.obj = std::make_unique<TxoSpenderIndex>(std::move(chain), cache, false, false); break;
        }
        s.synced = false;
        bool ok = s.obj->Init();
        VCHECK(ok, "c21.index-init", "Init failed for", KIND_NAMES[k], "restarts", s.restarts);
        NoFatal("Init");
        s.synced = s.obj->GetSummary().synced;
    }
    void SyncNow(int k)
    {
        Phase ph(KIND_NAMES[k]);
        Slot& s = slot[k];
        s.obj->Sync();
        NoFatal("Sync");
        s.synced = true;
        s.lagging = false;
    }
    void Destroy(int k)
    {
        Slot& s = slot[k];
        if (!s.obj) return;
        // clean shutdown in the order of init.cpp: Interrupt, flush the chainstate (ChainStateFlushed -> Commit of a synced index), drain callbacks, Stop, destroy
        s.obj->Interrupt();
        { LOCK(cs_main); sim.chainstate().ForceFlushStateToDisk(/*wipe_cache=*/false); }
        sim.SyncSignals();
        s.obj->Stop();
        s.obj.reset();
        s.synced = false;
        s.restarts++;
    }
    /** is the active block at `height` already in index k? (used only to time the interruption of a background sync) */
    bool Indexed(int k, int height)
    {
        const CBlockIndex* pi;
        { LOCK(cs_main); pi = sim.chainman().ActiveChain()[height]; }
        if (!pi) return true;
        if (height == 0) return true; // genesis: not in the harness' block store, and txindex skips it by design
        switch (k) {
        case TXI: return Tx()->FindTx(sim.block_store.at(pi->GetBlockHash())->vtx[0]->GetHash()).has_value();
        case BFI: { BlockFilter f; return Bf()->LookupFilter(pi, f); }
        case CSI: return Cs()->LookUpStats(*pi).has_value();
        default: return true;
        }
    }
    /** background Sync interrupted once the block at `stop_height` is indexed (or after a timeout); returns true if the sync was cut short */
    bool InterruptedSync(int k, int stop_height)
    {
        Slot& s = slot[k];
        bool started = s.obj->StartBackgroundSync();
        VCHECK(started, "c21.index-init", "StartBackgroundSync failed");
        auto t0 = std::chrono::steady_clock::now();
        while (!Indexed(k, stop_height) && std::chrono::steady_clock::now() - t0 < std::chrono::seconds(20)) std::this_thread::sleep_for(std::chrono::microseconds(200));
        s.obj->Interrupt();
        { LOCK(cs_main); sim.chainstate().ForceFlushStateToDisk(/*wipe_cache=*/false); } // shutdown order of init.cpp
        sim.SyncSignals();
        s.obj->Stop(); // joins the sync thread (and unregisters: the object is only good for destruction afterwards)
        NoFatal("background Sync");
        bool cut = !s.obj->GetSummary().synced;
        return cut;
    }

    cpp_int Elem(const COutPoint& op, const RefCoin& c)
    {
        auto b = c21ref::CoinBytes(op, c);
        auto it = elem_cache.find(b);
        if (it != elem_cache.end()) return it->second;
        cpp_int v = c21ref::MuElement(b);
        elem_cache.emplace(std::move(b), v);
        return v;
    }
    uint256 ModelMuHash(const RefUtxo& u)
    {
        cpp_int acc = 1;
        for (auto& [op, c] : u) acc = c21ref::MuMul(acc, Elem(op, c));
        return c21ref::MuFinalize(acc);
    }

    /** recompute everything from the model's active chain and compare with every index that is synced (all=true: every index must be) */
    void CheckIndexes(const char* where)
    {
        Phase ph("check-indexes");
        sim.SyncSignals();
        NoFatal(where);
        uint256 tip = sim.TipHash();
        RefReplay rep = sim.ledger.Replay(tip, /*keep_snapshots=*/true);
        VCHECK(rep.ok, "c21.model", "model rejects the active chain", rep.why);
        std::vector<uint256> path = sim.ledger.Path(tip);
        bool use[NKIND], at_tip[NKIND] = {false, false, false, false};
        for (int k = 0; k < NKIND; ++k) {
            use[k] = slot[k].obj && slot[k].synced;
            if (use[k]) {
                bool ok = slot[k].obj->BlockUntilSyncedToCurrentChain();
                VCHECK(ok, "c21.index-synced", KIND_NAMES[k], "reports not synced after Sync() completed");
                // After a pure disconnect (InvalidateBlock) no BlockConnected arrives: the index legitimately stays at the disconnected block, a DESCENDANT
                // of the tip, until the next connection rewinds it (BlockUntilSyncedToCurrentChain uses the same rule).
                IndexSummary sum = slot[k].obj->GetSummary();
                VCHECK(sim.ledger.Known(sum.best_block_hash) && sim.ledger.IsAncestor(tip, sum.best_block_hash), "c21.index-synced", KIND_NAMES[k], "best block",
                       sum.best_block_hash.ToString(), "is neither the active tip nor a descendant of it", tip.ToString());
                at_tip[k] = sum.best_block_hash == tip;
                if (!at_tip[k]) st.cls("index-ahead-after-disconnect");
            }
        }
        uint256 prev_header; // filter header chain, genesis prev = 0
        std::map<COutPoint, std::pair<Txid, uint256>> spenders; // active chain: outpoint -> (spending txid, block)
        RefUtxo running;
        cpp_int acc = 1;
        bool have_acc = false;
        for (const uint256& bh : path) {
            const RefBlock& b = sim.ledger.At(bh);
            const CBlockIndex* pi;
            { LOCK(cs_main); pi = sim.chainman().m_blockman.LookupBlockIndex(bh); }
            VCHECK(pi != nullptr, "c21.model", "active block unknown to the node");
            // ---- element set + spenders from the model
            std::set<std::vector<uint8_t>> elements;
            bool block_spent = false;
            std::vector<COutPoint> created;
            for (size_t ti = 0; ti < b.vtx.size(); ++ti) {
                const CTransaction& tx = *b.vtx[ti];
                if (ti > 0) {
                    for (auto& in : tx.vin) {
                        auto it = running.find(in.prevout);
                        VCHECK(it != running.end(), "c21.model", "model lacks a spent coin");
                        if (!it->second.spk.empty()) elements.emplace(it->second.spk.begin(), it->second.spk.end());
                        spenders[in.prevout] = {tx.GetHash(), bh};
                        running.erase(it);
                        block_spent = true;
                    }
                }
                for (uint32_t o = 0; o < tx.vout.size(); ++o) {
                    const CScript& spk = tx.vout[o].scriptPubKey;
                    if (!spk.empty() && spk[0] != OP_RETURN) elements.emplace(spk.begin(), spk.end());
                    if (b.height > 0 && !((spk.size() > 0 && spk[0] == OP_RETURN) || spk.size() > 10000)) { running[COutPoint(tx.GetHash(), o)] = RefCoin{tx.vout[o].nValue, spk, b.height, ti == 0}; created.emplace_back(tx.GetHash(), o); }
                }
            }
            VCHECK(running == rep.utxo_at.at(bh), "c21.model", "model self-check: running UTXO differs from replay at height", b.height);
            // ---- txindex
            if (use[TXI] && b.height > 0) {
                for (auto& tx : b.vtx) {
                    auto r = Tx()->FindTx(tx->GetHash());
                    st.steps++;
                    VCHECK(r.has_value(), "c21.txindex", "active tx not found", tx->GetHash().ToString(), "height", b.height, where);
                    VCHECK(r->tx && r->tx->GetWitnessHash() == tx->GetWitnessHash(), "c21.txindex", "different transaction returned for", tx->GetHash().ToString());
                    VCHECK(r->block_hash == bh, "c21.txindex", "tx", tx->GetHash().ToString(), "reported in block", r->block_hash.ToString(), "active block", bh.ToString(), where);
                }
            }
            // ---- block filter
            if (use[BFI]) {
                std::vector<uint8_t> want = c21ref::Bip158Basic(bh, elements);
                BlockFilter f;
                bool ok = Bf()->LookupFilter(pi, f);
                st.steps++;
                VCHECK(ok, "c21.filter", "no filter for active block at height", b.height, where);
                VCHECK(f.GetBlockHash() == bh, "c21.filter", "filter of another block at height", b.height);
                VCHECK(f.GetEncodedFilter() == want, "c21.filter", "filter bytes differ from own BIP158 encoding at height", b.height, "index", verif::hex(f.GetEncodedFilter()), "own", verif::hex(want), where);
                auto fh = c21ref::Sha256d(want.data(), want.size());
                uint8_t cat[64];
                memcpy(cat, fh.data(), 32);
                memcpy(cat + 32, prev_header.data(), 32);
                auto hh = c21ref::Sha256d(cat, 64);
                uint256 want_header;
                memcpy(want_header.data(), hh.data(), 32);
                uint256 got_header;
                ok = Bf()->LookupFilterHeader(pi, got_header);
                VCHECK(ok && got_header == want_header, "c21.filter-header", "height", b.height, "index", got_header.ToString(), "own chain", want_header.ToString(), where);
                prev_header = want_header;
            }
            // ---- coin statistics at this height
            if (use[CSI]) {
                auto stats = Cs()->LookUpStats(*pi);
                st.steps++;
                VCHECK(stats.has_value(), "c21.coinstats", "no stats for active block at height", b.height, where);
                uint64_t n = running.size(), bogo = 0;
                CAmount total = 0;
                for (auto& [op, c] : running) { total += c.value; bogo += 50 + c.spk.size(); }
                VCHECK(stats->nTransactionOutputs == n, "c21.coinstats", "txouts", stats->nTransactionOutputs, "model", n, "height", b.height, where);
                VCHECK(stats->total_amount.has_value() && *stats->total_amount == total, "c21.coinstats", "total_amount model", total, "height", b.height, where);
                VCHECK(stats->nBogoSize == bogo, "c21.coinstats", "bogosize", stats->nBogoSize, "model", bogo, "height", b.height, where);
                uint256 mh;
                {
                    // product over the model UTXO at this height: recomputed from scratch whenever the block spent something, extended by the
                    // new coins otherwise (same product, no division anywhere in the reference)
                    Phase ph2("model-muhash");
                    if (!have_acc || block_spent) {
                        acc = 1;
                        for (auto& [op, c] : running) acc = c21ref::MuMul(acc, Elem(op, c));
                        have_acc = true;
                    } else {
                        for (auto& op : created) { auto it = running.find(op); if (it != running.end()) acc = c21ref::MuMul(acc, Elem(op, it->second)); }
                    }
                    mh = c21ref::MuFinalize(acc);
                }
                VCHECK(stats->hashSerialized == mh, "c21.coinstats-muhash", "height", b.height, "index", stats->hashSerialized.ToString(), "own", mh.ToString(), where);
            }
        }
        // ---- spender index
        if (use[SPI]) {
            for (auto& [op, sp] : spenders) {
                auto r = Sp()->FindSpender(op);
                st.steps++;
                VCHECK(r.has_value(), "c21.spender", "lookup error for", op.ToString());
                VCHECK(r->has_value(), "c21.spender", "no spender for an outpoint spent on the active chain", op.ToString(), where);
                VCHECK((*r)->tx->GetHash() == sp.first && (*r)->block_hash == sp.second, "c21.spender", "outpoint", op.ToString(), "index says", (*r)->tx->GetHash().ToString(), "in",
                       (*r)->block_hash.ToString(), "active spender", sp.first.ToString(), "in", sp.second.ToString(), where);
            }
            // only when the index is exactly at the tip: while it sits on a just-disconnected block, that block's spends are still (legitimately) indexed
            for (auto& [op, c] : running) {
                if (!at_tip[SPI]) break;
                auto r = Sp()->FindSpender(op);
                st.steps++;
                VCHECK(r.has_value() && !r->has_value(), "c21.spender-stale", "spender reported for an outpoint that is unspent on the active chain", op.ToString(), where);
            }
        }
        // ---- MuHash of the live coins DB (kernel/coinstats.cpp)
        {
            std::optional<kernel::CCoinsStats> live;
            {
                LOCK(cs_main);
                sim.chainstate().ForceFlushStateToDisk(/*wipe_cache=*/false);
            }
            live = kernel::ComputeUTXOStats(kernel::CoinStatsHashType::MUHASH, sim.chainstate().CoinsDB(), sim.chainman().m_blockman);
            st.steps++;
            VCHECK(live.has_value(), "c21.utxostats", "ComputeUTXOStats failed");
            uint256 mh = ModelMuHash(running);
            VCHECK(live->hashSerialized == mh, "c21.utxostats", "MuHash of the coins DB", live->hashSerialized.ToString(), "own from model UTXO", mh.ToString(), where);
            VCHECK(live->nTransactionOutputs == running.size(), "c21.utxostats", "txouts", live->nTransactionOutputs, "model", running.size());
        }
    }
};

} // namespace

VERIF_TARGET(c21_indexes, init, 48, 700,
             "histories (<=34 ops) on a regtest node over a 104-block base with txindex, BASIC blockfilterindex, coinstatsindex and txospenderindex on on-disk DBs: "
             "blocks with 0-4 generated txs (spends across forks, OP_RETURN and keyed outputs, re-mined txs) on up to 3 branches, overtaking reorgs, invalidate/"
             "reconsider tip, chainstate flush; per index: start (Init+Sync), Init only (lags behind), background Sync interrupted at a generated height, destroy + "
             "recreate on the same DB (restart); at check points and at the end every index is brought to the tip and compared with recomputation from the model's "
             "active chain (own BIP158 encoder, own MuHash). non-trivial = some index saw a reorg while it was behind/absent and was restarted; distinct = op sequence")
{
    SetMockTime(0);
    ChainSimOpts o;
    o.immediate_signals = !s.chance(48); // sometimes the production arrangement: scheduler thread + serial task runner
    if (!o.immediate_signals) st.cls("scheduler-signals");
    std::unique_ptr<ChainSim> simp;
    { Phase ph("chainsim"); simp = std::make_unique<ChainSim>(o); }
    ChainSim& sim = *simp;
    std::vector<uint256> base;
    { Phase ph("loadbase"); base = sim.LoadBase(104); }
    Harness H(sim, st);
    std::vector<uint256> heads{base.back()};
    std::vector<CTransactionRef> built_txs;
    unsigned nops = s.range<unsigned>(3, 34);
    int reorgs = 0, interrupted = 0, checks = 0;
    bool stale_spend = false;
    auto chain_moved = [&](bool reorg) {
        for (int k = 0; k < NKIND; ++k) {
            Slot& sl = H.slot[k];
            if (!sl.obj || !sl.synced) { sl.lagging = true; if (reorg) sl.reorg_while_behind = true; }
        }
    };
    auto build_block = [&](const uint256& parent, unsigned tag) -> uint256 {
        RefReplay pr = sim.ledger.Replay(parent);
        assert(pr.ok);
        int height = sim.ledger.At(parent).height + 1;
        RefUtxo u = pr.utxo;
        std::vector<CTransactionRef> txs;
        CAmount fees = 0;
        unsigned ntx = s.range<unsigned>(0, 4);
        for (unsigned t = 0; t < ntx; ++t) {
            if (!built_txs.empty() && s.chance(70)) { // re-mine a tx built for another branch if it is valid here (same txid in two blocks)
                CTransactionRef cand = built_txs[s.index(built_txs.size())];
                bool ok = true; CAmount in = 0, out = 0;
                for (auto& i : cand->vin) { auto it = u.find(i.prevout); if (it == u.end() || (it->second.coinbase && height - it->second.height < 100)) { ok = false; break; } in += it->second.value; }
                for (uint32_t k = 0; ok && k < cand->vout.size(); ++k) if (u.count(COutPoint(cand->GetHash(), k))) ok = false;
                for (auto& x : txs) if (x->GetHash() == cand->GetHash()) ok = false;
                if (ok) {
                    for (auto& i : cand->vin) u.erase(i.prevout);
                    for (uint32_t k = 0; k < cand->vout.size(); ++k) { out += cand->vout[k].nValue; if (!(cand->vout[k].scriptPubKey.size() && cand->vout[k].scriptPubKey[0] == OP_RETURN)) u[COutPoint(cand->GetHash(), k)] = RefCoin{cand->vout[k].nValue, cand->vout[k].scriptPubKey, height, false}; }
                    fees += in - out;
                    txs.push_back(cand);
                    st.cls("remined-tx");
                    continue;
                }
            }
            std::vector<std::pair<COutPoint, RefCoin>> spendable;
            for (auto& [op2, c] : u) {
                if (c.coinbase && height - c.height < 100) continue;
                if (c.spk == P2WSH_OP_TRUE || c.spk == sim.keys.Script(SpkType::P2WPKH, 1) || c.spk == sim.keys.Script(SpkType::P2PKH, 2)) spendable.emplace_back(op2, c);
            }
            if (spendable.empty()) break;
            unsigned nin = s.range<unsigned>(1, 3);
            std::vector<std::pair<COutPoint, RefCoin>> ins;
            CAmount in = 0;
            for (unsigned k = 0; k < nin && !spendable.empty(); ++k) {
                size_t j = s.chance(128) ? spendable.size() - 1 - s.index(std::min<size_t>(spendable.size(), 4)) : s.index(spendable.size());
                ins.push_back(spendable[j]);
                in += spendable[j].second.value;
                spendable.erase(spendable.begin() + j);
            }
            unsigned nout = s.range<unsigned>(1, 3);
            CAmount fee = s.chance(128) ? 0 : s.range<CAmount>(0, in / 10);
            CAmount rest = in - fee;
            std::vector<CTxOut> outs;
            for (unsigned k = 0; k < nout; ++k) {
                CAmount v = (k + 1 == nout) ? rest : s.range<CAmount>(0, rest);
                rest -= v;
                SpkType ty = s.pick<SpkType>({SpkType::ANYONE_P2WSH, SpkType::ANYONE_P2WSH, SpkType::P2WPKH, SpkType::P2PKH, SpkType::OP_RETURN});
                outs.emplace_back(v, sim.keys.Script(ty, ty == SpkType::P2WPKH ? 1 : 2));
            }
            CMutableTransaction mtx = sim.MakeTx(ins, outs);
            CTransactionRef tx = MakeTransactionRef(mtx);
            for (auto& [op2, c] : ins) u.erase(op2);
            CAmount out = 0;
            for (uint32_t k = 0; k < tx->vout.size(); ++k) {
                out += tx->vout[k].nValue;
                if (!(tx->vout[k].scriptPubKey.size() && tx->vout[k].scriptPubKey[0] == OP_RETURN)) u[COutPoint(tx->GetHash(), k)] = RefCoin{tx->vout[k].nValue, tx->vout[k].scriptPubKey, height, false};
            }
            fees += in - out;
            txs.push_back(tx);
            built_txs.push_back(tx);
        }
        BlockSpec spec;
        spec.prev = parent;
        spec.txs = txs;
        spec.fees = s.chance(200) ? fees : s.range<CAmount>(0, fees); // may under-claim (unclaimed rewards in the coin statistics)
        spec.extra_nonce = tag;
        auto blk = sim.Build(spec);
        uint256 old_tip = sim.TipHash();
        auto d = sim.Deliver(blk);
        VCHECK(d.processed && (!d.verdict || d.verdict->IsValid()), "c21.model", "model-valid block rejected", d.verdict ? StateStr(*d.verdict) : "not processed");
        H.NoFatal("block delivery");
        uint256 new_tip = sim.TipHash();
        st.note("build h=", height, " ntx=", txs.size(), (new_tip == blk->GetHash() ? " ->tip" : " (side)"));
        if (new_tip != old_tip) {
            bool reorg = !sim.ledger.IsAncestor(old_tip, new_tip);
            if (reorg) {
                reorgs++; st.cls("reorg"); st.note("reorg");
                uint256 a = old_tip;
                while (!sim.ledger.IsAncestor(a, new_tip)) { if (sim.ledger.At(a).vtx.size() > 1) stale_spend = true; a = sim.ledger.At(a).prev; }
            }
            chain_moved(reorg);
        }
        bool replaced = false;
        for (auto& h : heads) if (h == parent) { h = blk->GetHash(); replaced = true; break; }
        if (!replaced) { if (heads.size() < 3) heads.push_back(blk->GetHash()); else heads[s.index(heads.size())] = blk->GetHash(); }
        return blk->GetHash();
    };

    for (unsigned op = 0; op < nops && !s.exhausted(); ++op) {
        unsigned kind = s.range<unsigned>(0, 15);
        if (kind <= 4) { // build on tip or on a head
            uint256 parent = s.chance(180) ? sim.TipHash() : heads[s.index(heads.size())];
            build_block(parent, op);
            st.mix(uint64_t(1));
        } else if (kind == 5) { // overtake: fork 1-4 back (or extend a side head) until it becomes the active chain
            uint256 parent = heads[s.index(heads.size())];
            uint256 tip = sim.TipHash();
            if (sim.ledger.IsAncestor(parent, tip)) {
                int back = s.range<int>(1, 4), th = sim.ledger.At(tip).height;
                parent = sim.ledger.AncestorAt(tip, std::max(100, th - back));
            }
            int burst = std::clamp(sim.ledger.At(tip).height - sim.ledger.At(parent).height + 1, 1, 6);
            for (int i = 0; i < burst; ++i) parent = build_block(parent, op * 8 + i);
            st.mix(uint64_t(2)); st.cls("overtake");
        } else if (kind == 6) { // invalidate the tip, maybe act in between, reconsider
            uint256 tip = sim.TipHash();
            if (sim.ledger.At(tip).height <= 101) continue;
            CBlockIndex* pi;
            { LOCK(cs_main); pi = sim.chainman().m_blockman.LookupBlockIndex(tip); }
            BlockValidationState state;
            sim.chainstate().InvalidateBlock(state, pi);
            sim.SyncSignals();
            chain_moved(true);
            st.note("invalidate tip"); st.cls("invalidate"); st.mix(uint64_t(3));
            if (s.boolean()) { H.CheckIndexes("after-invalidate"); checks++; }
            { LOCK(cs_main); sim.chainstate().ResetBlockFailureFlags(pi); sim.chainman().RecalculateBestHeader(); }
            sim.chainstate().ActivateBestChain(state);
            sim.SyncSignals();
            chain_moved(true);
            H.NoFatal("invalidate/reconsider");
        } else if (kind == 9) {
            // index stopped at a committed best block A -> tip(s) invalidated for good -> replacement branch of EQUAL OR LOWER height -> index restarted:
            // on restart the index's persisted best block is a stale block at least as high as the active tip; Sync() must rewind and follow the active branch
            int k = int(s.index(NKIND));
            Slot& sl = H.slot[k];
            if (sim.TipHeight() <= 103) continue;
            if (!sl.obj) H.Create(k);
            if (!sl.synced) H.SyncNow(k);
            H.Destroy(k); // clean shutdown: chainstate flush -> ChainStateFlushed -> locator committed at the tip
            unsigned depth = s.range<unsigned>(1, 2);
            uint256 inv = sim.ledger.AncestorAt(sim.TipHash(), sim.TipHeight() - int(depth) + 1);
            CBlockIndex* pi;
            { LOCK(cs_main); pi = sim.chainman().m_blockman.LookupBlockIndex(inv); }
            BlockValidationState state;
            sim.chainstate().InvalidateBlock(state, pi);
            sim.SyncSignals();
            chain_moved(true);
            // heads on the invalidated branch can no longer be extended
            for (auto& h : heads) if (sim.ledger.IsAncestor(inv, h)) h = sim.TipHash();
            unsigned repl = s.range<unsigned>(1, depth); // replacement no higher than the old tip
            for (unsigned i = 0; i < repl; ++i) build_block(sim.TipHash(), 5000 + op * 8 + i); // own tag space: must not rebuild a block identical to an invalidated one
            H.NoFatal("stale-restart");
            H.Create(k);
            if (!H.slot[k].synced) H.SyncNow(k);
            H.slot[k].reorg_while_behind = true;
            st.cls("restart"); st.cls("restart-on-stale-best-not-below-tip");
            st.note("stale-restart ", KIND_NAMES[k], " depth=", depth, " repl=", repl);
            st.mix(uint64_t(0x900 + k * 4 + depth * 2 + repl));
            if (s.boolean()) { H.CheckIndexes("after-stale-restart"); checks++; }
        } else if (kind == 7) {
            LOCK(cs_main);
            sim.chainstate().ForceFlushStateToDisk(s.boolean());
            st.note("flush"); st.cls("flush"); st.mix(uint64_t(4));
        } else if (kind == 8) {
            H.CheckIndexes("mid"); checks++;
            st.note("check"); st.mix(uint64_t(5));
        } else { // index life cycle
            int k = int(s.index(NKIND));
            Slot& sl = H.slot[k];
            unsigned what = s.range<unsigned>(0, 5);
            st.mix(uint64_t(0x100 + k * 8 + what));
            if (!sl.obj) {
                H.Create(k);
                if (sl.restarts) st.cls("restart");
                st.note("create ", KIND_NAMES[k], sl.synced ? " (already at tip)" : "");
                if (what <= 2 && !sl.synced) { H.SyncNow(k); st.note("sync"); }
                else if (what == 3 && !sl.synced) {
                    int from = sl.obj->GetSummary().best_block_height, to = sim.TipHeight();
                    int stop = from + int(s.index(size_t(std::max(1, to - from))));
                    bool cut = H.InterruptedSync(k, stop);
                    st.note("bg-sync interrupted at>=", stop, cut ? " (cut short)" : " (completed)");
                    if (cut) { interrupted++; st.cls("interrupted-mid-sync"); }
                    H.Destroy(k); // Stop() was called: only destruction is left; the next create is a restart from the committed locator
                } // else: Init only -> lags behind, ignores notifications until synced
                else if (!sl.synced) st.cls("init-only");
            } else {
                if (what <= 1) { H.Destroy(k); st.note("destroy ", KIND_NAMES[k]); }
                else if (!sl.synced) { H.SyncNow(k); st.note("sync ", KIND_NAMES[k]); }
            }
        }
    }
    // quiescence: every index exists, is synced to the tip, and agrees with recomputation
    bool nontrivial = false;
    for (int k = 0; k < NKIND; ++k) {
        Slot& sl = H.slot[k];
        if (sl.reorg_while_behind && sl.restarts > 0) nontrivial = true;
        if (!sl.obj) { H.Create(k); if (sl.restarts) st.cls("restart"); }
        if (!sl.synced) H.SyncNow(k);
    }
    H.CheckIndexes("end");
    checks++;
    for (int k = 0; k < NKIND; ++k) H.Destroy(k);
    st.nontrivial = nontrivial;
    if (nontrivial) st.cls("reorg-while-behind+restart");
    if (stale_spend) st.cls("stale-branch-with-spends");
    if (reorgs >= 2) st.cls("reorgs>=2");
    st.mix(uint64_t(reorgs)); st.mix(uint64_t(interrupted));
    st.note("reorgs=", reorgs, " interrupted=", interrupted, " checks=", checks);
}
