# C40: stage list (what ./check C40 quick|thorough runs) and manifest text. Helpers gen()/enum()/hyp()/custom() come from props.py.
SPEC = {
    'level': 'exploration',
    'assumptions': [
        'pool model: effective value = value - ceil(feerate*input_vsize/1000), weight = 4*input_vsize, waste = sum(fee - long_term_fee) + excess (documented formulas, own arithmetic)',
        'caller preconditions respected (spend.cpp): positive selection amounts for BnB/CoinGrinder/SRD, non-positive ones only in Knapsack\'s mixed groups, BnB never under subtract-fee-from-outputs, max_selection_weight >= 1, one feerate pair per pool',
        'under subtract-fee-from-outputs the selection amount is the raw value (as OutputGroup::GetSelectionAmount defines it)',
        'CoinGrinder/SRD are additionally held to their documented change budget (target + change_target, target + CHANGE_LOWER + change_fee)',
        'BnB optimality is asserted against the candidates BnB is designed to consider: feasible subsets none of whose proper subsets is feasible, and not when the weight limit binds while two groups tie on the amount (two deviations from the literal statement, reproduced by target c40_bnb_literal, see corpus/C40/SENSITIVITY.md)',
    ],
    'stages': [
        gen('vh_c40', 'c40_coinselection', 400000, 6000000, min_cases_quick=60000,
            floors={'bnb-bruteforce-compared': 0.10, 'cg-bruteforce-compared': 0.15, 'cg-compared-weight-binding': 0.04, 'bnb-compared-weight-binding': 0.005,
                    'weight-binding': 0.2, 'feerate-low': 0.1, 'feerate-high': 0.1, 'bnb-at-upper-bound': 0.01, 'srd-success': 0.15,
                    'knapsack-success': 0.3, 'subtract-fee-outputs': 0.05, 'pool-has-clones': 0.1},
            rule='all four algorithms on generated pools; non-trivial = completed BnB/CoinGrinder search on >=4 groups compared with 2^n brute force having >=2 feasible subsets'),
        gen('vh_c40', 'up_bnb_finds_min_waste', 30000, 600000, workers_quick=4, rule='upstream fuzz target (supplementary)'),
        gen('vh_c40', 'up_coin_grinder_is_optimal', 30000, 600000, workers_quick=4, rule='upstream fuzz target (supplementary)'),
        gen('vh_c40', 'up_coinselection_srd', 20000, 400000, workers_quick=4, rule='upstream fuzz target (supplementary)'),
        gen('vh_c40', 'up_coinselection_knapsack', 20000, 400000, workers_quick=4, rule='upstream fuzz target (supplementary)'),
        gen('vh_c40', 'c40_bnb_literal', 0, 0, tiers=(), rule='replay-only: known finding (BnB complete search vs supersets at low feerate)'),
        gen('vh_c40', 'c40_bnb_tie_literal', 0, 0, tiers=(), rule='replay-only: known finding (BnB clone skipping under a binding weight limit)'),
        # coverage-guided libFuzzer campaign on the same target (thorough tier only; fz tree = g++ trace-pc + covshim)
        fuzz('vh_c40', 'c40_coinselection', 300, max_len=420),
    ],
}

META = {
    'level_text': 'Generated pools (1-20 output groups, ties/clones/exact matches, binding weight limits, four feerate regimes) are given to BnB, CoinGrinder, SRD and '
                  'Knapsack; every returned selection is checked against the harness\' own model of the pool (membership, no repeats, sufficiency, BnB upper bound, '
                  'weight limit), and whenever BnB/CoinGrinder report a complete search on <=16 groups all 2^n subsets are enumerated to confirm that no admissible '
                  'subset has strictly lower waste / weight. Exploration: the pool space is sampled; each compared case is exhaustive over its subsets.',
    'technique': 'property-based testing: structured generator + independent validity predicate + per-case exhaustive brute-force optimum (reference model); upstream fuzz targets as supplementary stages',
    'level_note': 'BnB\'s optimum is taken over the candidate family the algorithm is designed to search; the literal reading (any feasible subset) fails on the unchanged tree in two low-feerate corners, documented in corpus/C40/SENSITIVITY.md.',
}
