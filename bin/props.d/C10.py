# C10: sighash algorithms and signature checks vs test_framework/script.py + key.py (engine E2: Hypothesis + sutd).
SPEC = {
    'level': 'exploration',
    'assumptions': [
        'references: test_framework/script.py (LegacySignatureHash, SegwitV0SignatureHash, TaprootSignatureHash, taproot_construct) and key.py (ECDSA with RFC 6979, BIP340) are correct',
        'the "committed / not committed" table is written from the algorithm texts (legacy incl. the SIGHASH_SINGLE constant-1 digest, BIP143, BIP341/342), one mutation per case',
        'spends are single-CHECKSIG templates (P2PK, P2PKH, P2WPKH, P2SH-P2WPKH, P2WSH, OP_CODESEPARATOR variants, P2TR key path, tapscript) under consensus flags '
        '(P2SH, DERSIG, NULLDUMMY, CLTV, CSV, WITNESS, TAPROOT); STRICTENC only for the undefined-hashtype clause',
        'transactions with 1-6 inputs and 0-6 outputs; direct digest comparison needs well-formed script pushes (script.py cannot iterate truncated pushes); '
        'FindAndDelete of the signature inside scriptCode and CHECKMULTISIG / CHECKSIGADD are not covered (C12)',
    ],
    'stages': [
        hyp('c10_sighash.py', 6000, 120000, needs=[('san', 'sutd')], min_cases_quick=2000,
            floors={'kind:digest_ecdsa': 0.1, 'kind:digest_taproot': 0.1, 'kind:spend': 0.3, 'algo:legacy': 0.05, 'algo:bip143': 0.05, 'algo:bip341': 0.05,
                    'mutation-must-fail': 0.1, 'mutation-must-pass': 0.04, 'anyonecanpay': 0.1, 'base:single': 0.01, 'base:none': 0.01, 'single-no-output': 0.005,
                    'sighash-cache': 0.03, 'taproot-invalid-type': 0.02},
            rule='one digest comparison or one signed spend + one mutation per case; non-trivial = non-default hashtype or a mutation of a committed field; '
                 'distinct = kind+template+hashtype+mutation+input/output counts'),
    ],
}

META = {
    'level_text': 'Generated transactions, input indices, script codes and all 256 hashtype bytes (plus 32-bit values) are hashed by SignatureHash / SignatureHashSchnorr '
                  'and compared with the independent Python digests (legacy, BIP143, BIP341/342, incl. SigHashCache and PrecomputedTransactionData paths). Python-signed '
                  'single-CHECKSIG spends of nine templates must verify in VerifyScript, and after one mutation (transaction field, amount, script, annex, codeseparator '
                  'position, signature bit, hashtype byte, key, high-S) the verdict must follow the commitment table of the applicable BIP. Exploration, not exhaustive.',
    'technique': 'property-based differential testing (Hypothesis) against independent sighash/ECDSA/BIP340 implementations; metamorphic mutation table for soundness',
    'level_note': 'Trusted: script.py digests, key.py signatures, the hand-written commitment table. Not covered: multisig opcodes, FindAndDelete of signatures, policy-only flags.',
}
