// C17 — Stored blocks and undo data read back intact or fail loudly.
//
// A regtest node with 64 KiB block files (-fastprune sizes, no pruning) receives a history of blocks of 250 B .. 70 KiB
// (padding output in the coinbase; a block larger than a file gets its own file), on the tip and on forks (undo data is then
// written out of height order, after a reorg), with 0-3 generated spends per block. After every step ALL records are read back:
//   * raw file bytes at the position the index records, de-obfuscated with the key from blocks/xor.dat by the harness itself,
//     must be  magic | LE32(size) | own serialization  (blocks)  and  magic | LE32(size) | undo | SHA256d(prev hash | undo)  (undo);
//   * ReadRawBlock == own serialization, ReadBlock re-serializes to it, ReadBlockUndo == the model's spent coins (RefLedger).
// Then faults are applied to the RAW files (below the XOR layer): byte flips aimed at magic / length / header / transaction bytes /
// undo body / undo checksum, truncation, zero-filled tail. The harness diffs every record against its pristine bytes and derives
// the only admissible outcomes from the statement:
//   block:  magic changed, length > MAX_SIZE, any header byte changed, record truncated         => ReadBlock fails
//           otherwise a successful ReadBlock must return a block hashing to the indexed hash, and the ORIGINAL block whenever
//           header+transaction bytes are untouched;  untouched record => succeeds, identical
//   undo:   any body/checksum byte changed or truncated => ReadBlockUndo fails;  untouched => succeeds, identical
//   a stored, never connected fork block whose transaction bytes were corrupted is never in the active chain after its branch
//   got the most work (the tip stays where it was).
// Left out (documented in props): pruning + re-download, flips inside the coinbase witness for the connect clause (see report).
#include <engine/verif.h>
#include <kits/chainsim.h>

#include <chainparams.h>
#include <hash.h>
#include <node/blockstorage.h>
#include <streams.h>
#include <test/util/script.h>
#include <undo.h>

#include <cstdio>
#include <filesystem>
#include <map>
#include <set>

#include <sys/stat.h>
#include <unistd.h>

using namespace verif;

namespace {

struct Rec {
    uint256 hash;
    std::shared_ptr<const CBlock> blk;
    std::vector<unsigned char> ser;      //!< own serialization (with witness)
    int file{-1};
    unsigned pos{0};                     //!< data position recorded by the index (after the 8-byte record header)
    bool connected{false};               //!< was part of the active chain at some point => undo record must exist
    std::vector<unsigned char> undo_ser; //!< serialization of the model undo
    CBlockUndo undo_model;
    int ufile{-1};
    unsigned upos{0};
    size_t cbwit_off{0};                 //!< offset (in ser) of the coinbase witness reserved value (32 bytes)
};

std::string FileName(const std::filesystem::path& dir, const char* prefix, int n)
{
    char buf[32];
    snprintf(buf, sizeof buf, "%s%05u.dat", prefix, unsigned(n));
    return (dir / buf).string();
}

/** read [off, off+len) of a raw file and de-obfuscate with the 8-byte key; returns the number of bytes available */
size_t ReadDecoded(const std::string& path, uint64_t off, size_t len, const std::array<unsigned char, 8>& key, std::vector<unsigned char>& out)
{
    out.assign(len, 0);
    FILE* f = fopen(path.c_str(), "rb");
    if (!f) return 0;
    size_t got = 0;
    if (fseek(f, long(off), SEEK_SET) == 0) got = fread(out.data(), 1, len, f);
    fclose(f);
    for (size_t i = 0; i < got; ++i) out[i] ^= key[(off + i) % 8];
    return got;
}

bool SameCoin(const Coin& a, const Coin& b) { return a.out.nValue == b.out.nValue && a.out.scriptPubKey == b.out.scriptPubKey && a.nHeight == b.nHeight && a.fCoinBase == b.fCoinBase; }
bool SameUndo(const CBlockUndo& a, const CBlockUndo& b)
{
    if (a.vtxundo.size() != b.vtxundo.size()) return false;
    for (size_t i = 0; i < a.vtxundo.size(); ++i) {
        if (a.vtxundo[i].vprevout.size() != b.vtxundo[i].vprevout.size()) return false;
        for (size_t j = 0; j < a.vtxundo[i].vprevout.size(); ++j) if (!SameCoin(a.vtxundo[i].vprevout[j], b.vtxundo[i].vprevout[j])) return false;
    }
    return true;
}

} // namespace

VERIF_TARGET(c17_blockstore, nullptr, 48, 360,
             "35% of cases with on-disk DBs and clean RESTARTS (flush, new node on a copy of the datadir, blocks re-registered) incl. the shape fork stored -> flush -> PreciousBlock (undo only) -> restart -> more connects; history of 2-10 blocks (250 B..70 KiB via coinbase padding, 0-3 generated spends, on the tip or on a fork 1-2 back => undo written out of order "
             "after reorgs) on a node with 64 KiB block files; all block and undo records are read back after every step against own serialization, raw "
             "de-obfuscated file bytes and the model's spent coins; then 0-6 raw-file faults (flip in magic / length / header / tx bytes / undo body / "
             "undo checksum, truncate, zero tail) each followed by a full read-back with the admissible outcomes derived from a byte diff; finally a "
             "corrupted never-connected fork block is given the most work and must stay out of the active chain. non-trivial = records in >=2 block "
             "files, an undo written after a reorg, and >=2 different fault regions hit (or the connect clause exercised); distinct = sizes/fork shape + fault (region, outcome) sequence")
{
    // counts first (an exhausted buffer yields zeros: no faults, no connect test, shortest history)
    // the connect clause is tested on otherwise pristine files (a fault elsewhere could make the reorg fail for unrelated reasons)
    const bool connect_test = s.chance(80);
    const unsigned nfaults = connect_test ? 0 : s.range<unsigned>(0, 6);
    const unsigned nblk = s.range<unsigned>(2, 10);
    // restart cases: block-tree DB and coins DB on disk, the node is shut down cleanly (flush) and started again on a copy of its datadir
    const bool with_restart = s.chance(90);
    ChainSimOpts o;
    o.fast_prune = true;
    if (with_restart) { o.coins_db_in_memory = false; o.block_tree_db_in_memory = false; }
    auto simp = std::make_unique<ChainSim>(o);
#define sim (*simp)
#define blockman (simp->chainman().m_blockman)
    auto base = sim.LoadBase(104);
    std::vector<std::shared_ptr<const CBlock>> all_blocks; // topological order, to re-register with the ledger of a restarted node
    for (auto& h : base) all_blocks.push_back(sim.block_store.at(h));
    std::filesystem::path dir = sim.m_args.GetBlocksDirPath();
    std::array<unsigned char, 8> key{};
    auto read_key = [&]() {
        std::array<unsigned char, 8> k{};
        FILE* f = fopen((dir / "xor.dat").string().c_str(), "rb");
        VCHECK(f != nullptr, "c17.setup", "no xor.dat");
        size_t n = fread(k.data(), 1, 8, f);
        fclose(f);
        VCHECK(n == 8, "c17.setup", "short xor.dat");
        return k;
    };
    key = read_key();
    const auto magic = Params().MessageStart();
    int restarts = 0, blocks_after_restart = 0;

    std::vector<Rec> recs;
    std::map<uint256, size_t> rec_of;
    auto add_rec = [&](const std::shared_ptr<const CBlock>& b) {
        Rec r;
        r.hash = b->GetHash(); r.blk = b;
        DataStream ds;
        ds << TX_WITH_WITNESS(*b);
        r.ser.assign(UCharCast(ds.data()), UCharCast(ds.data()) + ds.size());
        rec_of[r.hash] = recs.size();
        recs.push_back(std::move(r));
    };
    // the last base blocks take part too (they were written through the same path)
    for (size_t i = 96; i < base.size(); ++i) add_rec(sim.block_store.at(base[i]));

    auto model_undo = [&](Rec& r) {
        // spent coins from the model's replay of the parent chain, in input order (own UTXO rules)
        RefReplay pr = sim.ledger.Replay(r.blk->hashPrevBlock);
        assert(pr.ok);
        RefUtxo u = pr.utxo;
        int height = sim.ledger.At(r.hash).height;
        CBlockUndo bu;
        for (size_t t = 1; t < r.blk->vtx.size(); ++t) {
            const CTransaction& tx = *r.blk->vtx[t];
            CTxUndo tu;
            for (auto& in : tx.vin) { auto it = u.find(in.prevout); assert(it != u.end()); tu.vprevout.emplace_back(CTxOut(it->second.value, it->second.spk), it->second.height, it->second.coinbase); u.erase(it); }
            for (uint32_t k = 0; k < tx.vout.size(); ++k) if (!(tx.vout[k].scriptPubKey.size() && tx.vout[k].scriptPubKey[0] == OP_RETURN)) u[COutPoint(tx.GetHash(), k)] = RefCoin{tx.vout[k].nValue, tx.vout[k].scriptPubKey, height, false};
            bu.vtxundo.push_back(tu);
        }
        r.undo_model = bu;
        DataStream ds;
        ds << bu;
        r.undo_ser.assign(UCharCast(ds.data()), UCharCast(ds.data()) + ds.size());
    };

    auto mark_connected = [&]() {
        for (uint256 h = sim.TipHash();; h = sim.ledger.At(h).prev) {
            auto it = rec_of.find(h);
            if (it == rec_of.end()) break;
            Rec& r = recs[it->second];
            if (!r.connected) { r.connected = true; model_undo(r); }
            if (sim.ledger.At(h).height == 0) break;
        }
    };
    mark_connected();

    // region bookkeeping for the fault phase
    enum Region { R_MAGIC, R_LEN, R_HEADER, R_TX, R_UBODY, R_UCHK, R_NREG };
    static const char* const RNAME[] = {"magic", "length", "header", "tx", "undo-body", "undo-checksum"};
    std::set<int> regions_hit;
    int files_used = 0, undo_after_reorg = 0, faults = 0;
    bool connect_done = false;

    // ---- the read-back of everything; `pristine` = no fault applied yet (then every record must be perfect)
    auto check_all = [&](const char* where, bool pristine) {
        std::set<int> files;
        for (Rec& r : recs) {
            CBlockIndex* pi = WITH_LOCK(cs_main, return blockman.LookupBlockIndex(r.hash));
            VCHECK(pi != nullptr, "c17.index-missing", where, r.hash.ToString());
            FlatFilePos bp = WITH_LOCK(cs_main, return pi->GetBlockPos());
            VCHECK(!bp.IsNull() && bp.nPos >= 8, "c17.no-position", where, r.hash.ToString());
            r.file = bp.nFile; r.pos = bp.nPos;
            files.insert(r.file);
            const size_t sz = r.ser.size();
            // pristine bytes of the record: magic | LE32(size) | ser
            std::vector<unsigned char> want;
            want.insert(want.end(), magic.begin(), magic.end());
            for (int k = 0; k < 4; ++k) want.push_back((uint32_t(sz) >> (8 * k)) & 0xff);
            want.insert(want.end(), r.ser.begin(), r.ser.end());
            std::vector<unsigned char> cur;
            size_t got = ReadDecoded(FileName(dir, "blk", r.file), r.pos - 8, want.size(), key, cur);
            bool truncated = got < want.size();
            bool ch[4] = {false, false, false, false};
            for (size_t i = 0; i < got; ++i) if (cur[i] != want[i]) ch[i < 4 ? R_MAGIC : i < 8 ? R_LEN : i < 88 ? R_HEADER : R_TX] = true;
            uint32_t cur_len = got >= 8 ? (uint32_t(cur[4]) | uint32_t(cur[5]) << 8 | uint32_t(cur[6]) << 16 | uint32_t(cur[7]) << 24) : 0;
            bool intact = !truncated && !ch[0] && !ch[1] && !ch[2] && !ch[3];
            st.steps++;
            if (pristine) VCHECK(intact, "c17.raw-bytes-differ", where, "block", r.hash.ToString(), "file", r.file, "pos", r.pos, "raw record is not magic|size|serialization");
            CBlock rb;
            bool ok = blockman.ReadBlock(rb, *pi);
            auto raw = blockman.ReadRawBlock(bp);
            if (intact) {
                VCHECK(ok, "c17.readblock-failed", where, "intact record unreadable", r.hash.ToString());
                DataStream ds; ds << TX_WITH_WITNESS(rb);
                VCHECK(ds.size() == sz && memcmp(ds.data(), r.ser.data(), sz) == 0, "c17.readblock-differs", where, r.hash.ToString());
                VCHECK(raw.has_value() && raw->size() == sz && memcmp(raw->data(), r.ser.data(), sz) == 0, "c17.readraw-differs", where, r.hash.ToString());
            } else {
                bool must_fail = ch[R_MAGIC] || ch[R_HEADER] || (ch[R_LEN] && cur_len > MAX_SIZE) || (truncated && !ch[R_LEN]) || (truncated && cur_len >= sz);
                std::string what = strprintf("magic:%d len:%d(%u) header:%d tx:%d truncated:%d", ch[0], ch[1], cur_len, ch[2], ch[3], truncated);
                if (must_fail) VCHECK(!ok, "c17.corrupt-block-returned", where, r.hash.ToString(), what);
                if (ok) {
                    VCHECK(rb.GetHash() == r.hash, "c17.corrupt-block-returned", where, "returned block hashes to", rb.GetHash().ToString(), "indexed", r.hash.ToString(), what);
                    if (!ch[R_HEADER] && !ch[R_TX]) { DataStream ds; ds << TX_WITH_WITNESS(rb); VCHECK(ds.size() == sz && memcmp(ds.data(), r.ser.data(), sz) == 0, "c17.corrupt-block-returned", where, "tx bytes untouched but block differs", what); }
                }
                if (ch[R_MAGIC] || (ch[R_LEN] && cur_len > MAX_SIZE)) VCHECK(!raw.has_value(), "c17.corrupt-raw-returned", where, r.hash.ToString(), what);
                st.cls(ok ? "faulty-block-read-ok-same-hash" : "faulty-block-read-failed");
            }
            // ---- undo
            if (!r.connected || r.hash == Params().GenesisBlock().GetHash()) continue;
            uint32_t nst = WITH_LOCK(cs_main, return pi->nStatus);
            VCHECK(nst & BLOCK_HAVE_UNDO, "c17.undo-missing", where, "connected block without undo", r.hash.ToString());
            FlatFilePos up = WITH_LOCK(cs_main, return pi->GetUndoPos());
            r.ufile = up.nFile; r.upos = up.nPos;
            std::vector<unsigned char> uwant;
            uwant.insert(uwant.end(), magic.begin(), magic.end());
            for (int k = 0; k < 4; ++k) uwant.push_back((uint32_t(r.undo_ser.size()) >> (8 * k)) & 0xff);
            uwant.insert(uwant.end(), r.undo_ser.begin(), r.undo_ser.end());
            uint256 chk = (HashWriter{} << r.blk->hashPrevBlock << std::span<const unsigned char>(r.undo_ser)).GetHash();
            uwant.insert(uwant.end(), chk.begin(), chk.end());
            std::vector<unsigned char> ucur;
            size_t ugot = ReadDecoded(FileName(dir, "rev", r.ufile), r.upos - 8, uwant.size(), key, ucur);
            bool utrunc = ugot < uwant.size(), ubody = false, uchk = false;
            for (size_t i = 8; i < ugot; ++i) if (ucur[i] != uwant[i]) (i < 8 + r.undo_ser.size() ? ubody : uchk) = true;
            bool uhdr = false;
            for (size_t i = 0; i < std::min<size_t>(8, ugot); ++i) if (ucur[i] != uwant[i]) uhdr = true;
            st.steps++;
            if (pristine) VCHECK(!utrunc && !ubody && !uchk && !uhdr, "c17.raw-undo-differs", where, "undo of", r.hash.ToString(), "file", r.ufile, "pos", r.upos, "raw record is not magic|size|undo|sha256d(prev|undo)");
            CBlockUndo ru;
            bool uok = blockman.ReadBlockUndo(ru, *pi);
            if (!utrunc && !ubody && !uchk) {
                VCHECK(uok, "c17.readundo-failed", where, "intact undo unreadable", r.hash.ToString());
                VCHECK(SameUndo(ru, r.undo_model), "c17.readundo-differs", where, r.hash.ToString());
            } else {
                VCHECK(!uok, "c17.corrupt-undo-returned", where, r.hash.ToString(), strprintf("body:%d checksum:%d truncated:%d", ubody, uchk, utrunc));
                st.cls("faulty-undo-read-failed");
            }
        }
        files_used = std::max<int>(files_used, files.size());
    };

    // ---- history
    unsigned bi = 0;
    auto step = [&](int forced_psel) {
        ++bi;
        uint256 tip = sim.TipHash();
        uint256 parent = tip;
        unsigned psel = forced_psel >= 0 ? unsigned(forced_psel) : s.pick<unsigned>({0, 0, 4, 3, 0, 5, 3, 4});
        if (psel == 3) { // extend the newest block that never got connected: its branch overtakes the tip => reorg, undo written out of height order
            for (size_t i = recs.size(); i-- > 0;) if (!recs[i].connected) { parent = recs[i].hash; break; }
        }
        else if (psel == 4) parent = sim.ledger.At(tip).prev;                         // competitor of the tip: stored, not connected
        else if (psel == 5) parent = sim.ledger.At(sim.ledger.At(tip).prev).prev;    // two back
        static const size_t PADS[] = {0, 0, 900, 9000, 30000, 70000, 0, 20000};
        size_t pad = PADS[s.range<unsigned>(0, 7)];
        if (pad) pad += s.range<unsigned>(0, 255);
        RefReplay pr = sim.ledger.Replay(parent);
        assert(pr.ok);
        int height = sim.ledger.At(parent).height + 1;
        std::vector<std::pair<COutPoint, RefCoin>> spendable;
        for (auto& [op, c] : pr.utxo) if (c.spk == P2WSH_OP_TRUE && !(c.coinbase && height - c.height < 100)) spendable.emplace_back(op, c);
        unsigned ntx = s.range<unsigned>(0, 3);
        BlockSpec spec;
        spec.prev = parent;
        spec.extra_nonce = 1700 + bi;
        for (unsigned t = 0; t < ntx && !spendable.empty(); ++t) {
            size_t j = s.index(spendable.size());
            auto coin = spendable[j];
            spendable.erase(spendable.begin() + j);
            unsigned nout = s.range<unsigned>(1, 3);
            std::vector<CTxOut> outs;
            CAmount rest = coin.second.value;
            for (unsigned k = 0; k < nout; ++k) { CAmount v = (k + 1 == nout) ? rest : rest / 2; rest -= v; outs.emplace_back(v, k == 1 ? sim.keys.Script(SpkType::P2WPKH, 1) : P2WSH_OP_TRUE); }
            CMutableTransaction tx = sim.MakeTx({coin}, outs);
            CTransactionRef txr = MakeTransactionRef(tx);
            spec.txs.push_back(txr);
            for (uint32_t k = 0; k < txr->vout.size(); ++k) if (txr->vout[k].scriptPubKey == P2WSH_OP_TRUE) spendable.emplace_back(COutPoint(txr->GetHash(), k), RefCoin{txr->vout[k].nValue, P2WSH_OP_TRUE, height, false});
        }
        if (pad) spec.extra_coinbase_outputs.emplace_back(0, CScript() << OP_RETURN << std::vector<unsigned char>(pad, uint8_t(0x40 + bi)));
        auto blk = sim.Build(spec);
        auto dl = sim.Deliver(blk);
        VCHECK(dl.processed, "c17.setup", "valid block refused", dl.verdict ? StateStr(*dl.verdict) : "");
        add_rec(blk);
        all_blocks.push_back(blk);
        if (restarts) { blocks_after_restart++; st.cls("block-written-after-restart"); }
        uint256 nt = sim.TipHash();
        bool reorg = nt != tip && sim.ledger.At(nt).prev != tip;
        if (reorg) { undo_after_reorg++; st.cls("reorg"); }
        mark_connected();
        st.mix(uint64_t(psel * 16 + ntx)); st.mix(uint64_t(recs.back().ser.size() / 1000));
        st.note("block h=", height, " size=", recs.back().ser.size(), " ntx=", ntx, parent == tip ? " on tip" : " fork", nt == blk->GetHash() ? " ->tip" : "", reorg ? " (reorg)" : "");
        check_all("history", /*pristine=*/true);
    };
    auto flush = [&]() {
        { LOCK(cs_main); sim.chainstate().ForceFlushStateToDisk(/*wipe_cache=*/false); }
        st.mix(uint64_t(31)); st.cls("flush"); st.note("flush");
    };
    // make a stored-but-unconnected block of the tip's height the tip without writing any block: only undo data is written
    auto precious_fork = [&]() {
        uint256 tip = sim.TipHash();
        int th = sim.ledger.At(tip).height;
        for (size_t i = recs.size(); i-- > 0;) {
            if (recs[i].connected || sim.ledger.At(recs[i].hash).height != th) continue;
            CBlockIndex* pi = WITH_LOCK(cs_main, return blockman.LookupBlockIndex(recs[i].hash));
            BlockValidationState state;
            sim.chainstate().PreciousBlock(state, pi);
            sim.SyncSignals();
            if (sim.TipHash() == recs[i].hash) { undo_after_reorg++; st.cls("reorg"); st.cls("precious-reorg"); }
            mark_connected();
            st.mix(uint64_t(32)); st.note("precious ", recs[i].hash.ToString().substr(0, 8), sim.TipHash() == recs[i].hash ? " ->tip (undo written, no block written)" : "");
            check_all("precious", /*pristine=*/true);
            return;
        }
    };
    // clean shutdown (full flush) and start of a new node on a copy of the datadir; everything must read back as before
    auto restart = [&]() {
        if (!with_restart || restarts >= 2) return;
        { LOCK(cs_main); sim.chainstate().ForceFlushStateToDisk(/*wipe_cache=*/true); }
        uint256 tip_before = sim.TipHash();
        std::filesystem::path img = std::filesystem::temp_directory_path() / strprintf("vh_c17_img_%d", int(getpid()));
        std::filesystem::remove_all(img);
        std::filesystem::copy(std::filesystem::path(sim.m_args.GetDataDirNet()), img, std::filesystem::copy_options::recursive);
        simp.reset();
        ChainSimOpts o2 = o;
        o2.before_load = [img](const fs::path& d) { std::filesystem::copy(img, std::filesystem::path(d), std::filesystem::copy_options::recursive | std::filesystem::copy_options::overwrite_existing); };
        simp = std::make_unique<ChainSim>(o2);
        std::filesystem::remove_all(img);
        for (auto& b : all_blocks) sim.Register(b);
        dir = sim.m_args.GetBlocksDirPath();
        VCHECK(read_key() == key, "c17.setup", "xor key changed over a restart");
        restarts++;
        st.steps++;
        VCHECK(sim.TipHash() == tip_before, "c17.restart-lost-tip", "tip after clean restart", sim.TipHash().ToString(), "before", tip_before.ToString());
        st.mix(uint64_t(33)); st.cls("restart"); st.note("clean restart (tip h=", sim.TipHeight(), ")");
        check_all("restart", /*pristine=*/true);
    };
    for (unsigned k = 0; k < nblk; ++k) {
        unsigned inter = s.range<unsigned>(0, 9);
        if (inter == 7) flush();
        else if (inter == 8) precious_fork();
        else if (inter == 9) restart();
        step(-1);
    }
    if (with_restart) {
        // the shape that separates "undo written" from "block written" across index flushes and a restart:
        // fork block stored -> (flush) -> it becomes tip through PreciousBlock (undo only) -> clean restart -> more blocks connected in the same file
        step(4);
        if (s.chance(200)) flush();
        if (s.chance(200)) precious_fork();
        restart();
        unsigned more = s.range<unsigned>(1, 3);
        for (unsigned k = 0; k < more; ++k) step(s.chance(200) ? 0 : -1);
        if (blocks_after_restart) st.cls("undo-written-after-restart");
    }
    if (files_used >= 2) st.cls("multi-file");

    // ---- faults on the raw files
    auto file_size = [](const std::string& p) -> int64_t { struct stat sb; return stat(p.c_str(), &sb) == 0 ? int64_t(sb.st_size) : -1; };
    auto poke = [&](const std::string& path, uint64_t off, unsigned char xormask) {
        FILE* f = fopen(path.c_str(), "r+b");
        if (!f) return false;
        unsigned char c = 0;
        bool ok = fseek(f, long(off), SEEK_SET) == 0 && fread(&c, 1, 1, f) == 1;
        if (ok) { c ^= xormask; ok = fseek(f, long(off), SEEK_SET) == 0 && fwrite(&c, 1, 1, f) == 1; }
        fclose(f);
        return ok;
    };
    std::set<size_t> tx_corrupted; // records whose tx bytes were hit on purpose
    for (unsigned fi = 0; fi < nfaults; ++fi) {
        size_t ri = s.index(recs.size());
        Rec& r = recs[ri];
        unsigned fk = s.range<unsigned>(0, 8);
        unsigned char mask = uint8_t(1u << s.range<unsigned>(0, 7));
        if (s.chance(40)) mask = uint8_t(s.range<unsigned>(1, 255));
        std::string bpath = FileName(dir, "blk", r.file), upath = FileName(dir, "rev", r.ufile);
        bool has_undo = r.connected && r.ufile >= 0;
        if (fk >= 4 && fk <= 5 && !has_undo) fk = 3;
        bool done = false;
        switch (fk) {
        case 0: done = poke(bpath, r.pos - 8 + s.range<unsigned>(0, 3), mask); regions_hit.insert(R_MAGIC); st.note("flip magic of ", r.hash.ToString().substr(0, 8)); break;
        case 1: done = poke(bpath, r.pos - 4 + s.range<unsigned>(0, 3), mask); regions_hit.insert(R_LEN); st.note("flip length of ", r.hash.ToString().substr(0, 8)); break;
        case 2: done = poke(bpath, r.pos + s.range<unsigned>(0, 79), mask); regions_hit.insert(R_HEADER); st.note("flip header byte of ", r.hash.ToString().substr(0, 8)); break;
        case 3: done = poke(bpath, r.pos + 80 + s.index(r.ser.size() - 80), mask); regions_hit.insert(R_TX); tx_corrupted.insert(ri); st.note("flip tx byte of ", r.hash.ToString().substr(0, 8)); break;
        case 4: if (r.undo_ser.empty()) break; done = poke(upath, r.upos + s.index(r.undo_ser.size()), mask); regions_hit.insert(R_UBODY); st.note("flip undo body of ", r.hash.ToString().substr(0, 8)); break;
        case 5: done = poke(upath, r.upos + r.undo_ser.size() + s.range<unsigned>(0, 31), mask); regions_hit.insert(R_UCHK); st.note("flip undo checksum of ", r.hash.ToString().substr(0, 8)); break;
        case 6: { // truncate the block file inside / right after the record
            int64_t at = int64_t(r.pos) - 8 + int64_t(s.index(r.ser.size() + 9));
            if (s.chance(60)) at = int64_t(r.pos) + int64_t(r.ser.size());
            done = truncate(bpath.c_str(), at) == 0;
            st.note("truncate blk", r.file, " at ", at, " (record of ", r.hash.ToString().substr(0, 8), " spans ", r.pos - 8, "..", r.pos + r.ser.size(), ")");
            st.cls("fault-truncate");
            break; }
        case 7: { // zero-fill the tail of the block file from inside the record
            int64_t fsz = file_size(bpath);
            int64_t at = int64_t(r.pos) - 8 + int64_t(s.index(r.ser.size() + 8));
            if (fsz <= at) break;
            FILE* f = fopen(bpath.c_str(), "r+b");
            if (!f) break;
            std::vector<unsigned char> z(size_t(std::min<int64_t>(fsz - at, 200000)), 0);
            done = fseek(f, long(at), SEEK_SET) == 0 && fwrite(z.data(), 1, z.size(), f) == z.size();
            fclose(f);
            st.note("zero tail of blk", r.file, " from ", at);
            st.cls("fault-zero-tail");
            break; }
        default: { // truncate the undo file
            if (!has_undo) break;
            int64_t at = int64_t(r.upos) - 8 + int64_t(s.index(r.undo_ser.size() + 41));
            done = truncate(upath.c_str(), at) == 0;
            st.note("truncate rev", r.ufile, " at ", at);
            st.cls("fault-truncate-undo");
            break; }
        }
        if (!done) continue;
        faults++;
        st.mix(uint64_t(500 + fk));
        check_all("fault", /*pristine=*/false);
    }
    for (int rg : regions_hit) st.cls(std::string("fault-") + RNAME[rg]);

    // ---- a never-connected fork block with corrupted transaction bytes gets the most work: it must stay out of the chain
    if (connect_test) {
        std::vector<size_t> cand;
        for (size_t i = 0; i < recs.size(); ++i) if (!recs[i].connected && recs[i].ser.size() > 200) cand.push_back(i);
        if (!cand.empty()) {
            size_t ri = cand[s.index(cand.size())];
            Rec& r = recs[ri];
            // locate the coinbase witness (1 item of 32 bytes: "01 20 <32 bytes>") at the end of the coinbase tx: it is not committed by the txid merkle root
            // and is deliberately excluded here (see props/notes); every other transaction byte is fair game
            CMutableTransaction cbm(*r.blk->vtx[0]);
            DataStream cbs; cbs << TX_WITH_WITNESS(*r.blk->vtx[0]);
            size_t ntx_varint = r.blk->vtx.size() < 253 ? 1 : 3;
            size_t cb_begin = 80 + ntx_varint, cb_end = cb_begin + cbs.size();
            size_t wit_begin = cb_end - 4 - 34, wit_end = cb_end - 4; // [count=01][len=20][32 bytes] then nLockTime
            size_t off;
            int tries = 0;
            do {
                off = 80 + s.index(r.ser.size() - 80);
                if (off >= wit_begin && off < wit_end) st.cls("cbwitness-region-excluded"); // known finding c17.corrupt-cbwitness-connected (probe target c17_probe_cbwitness)
            } while (off >= wit_begin && off < wit_end && ++tries < 8);
            if (!(off >= wit_begin && off < wit_end)) {
                bool done = poke(FileName(dir, "blk", r.file), r.pos + off, uint8_t(1u << s.range<unsigned>(0, 7)));
                if (done) {
                    uint256 old_tip = sim.TipHash();
                    int need = sim.ledger.At(old_tip).height - sim.ledger.At(r.hash).height + 1;
                    uint256 prev = r.hash;
                    for (int k = 0; k < need && k < 6; ++k) {
                        BlockSpec sp; sp.prev = prev; sp.extra_nonce = 1900 + k;
                        auto child = sim.Build(sp);
                        sim.Deliver(child);
                        prev = child->GetHash();
                    }
                    st.steps++;
                    bool in_chain = false;
                    for (uint256 h = sim.TipHash(); sim.ledger.At(h).height > 0; h = sim.ledger.At(h).prev) if (h == r.hash) in_chain = true;
                    VCHECK(!in_chain, "c17.corrupt-block-connected", "fork block with a flipped transaction byte at offset", off, "is in the active chain", r.hash.ToString());
                    // (the node may stop at the fork point after its fatal "corrupt block" error: where the tip is otherwise is not part of the statement)
                    VCHECK(sim.ledger.At(sim.TipHash()).height <= sim.ledger.At(old_tip).height, "c17.corrupt-block-connected", "the chain grew through a corrupted block");
                    st.cls("corrupt-fork-not-connected");
                    connect_done = true;
                    st.mix(uint64_t(777));
                    st.note("fork block ", r.hash.ToString().substr(0, 8), " tx byte ", off, " flipped, branch extended by ", need, ": not connected");
                }
            }
        }
    }
    st.nontrivial = files_used >= 2 && undo_after_reorg > 0 && (regions_hit.size() >= 2 || connect_done);
    st.note("files=", files_used, " reorgs=", undo_after_reorg, " faults=", faults, " restarts=", restarts);
#undef sim
#undef blockman
}
