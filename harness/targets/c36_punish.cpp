// C36 — Peers are punished only for what the rules say, never for transactions.
// NetSim node (out of IBD, mature base chain) with 2-5 scripted peers of every connection type / permission set / address kind.
// Oracles (computed from what the harness sent and from the peer's class; never from net_processing state):
//   (a) a `tx` message from a peer allowed to send transactions leaves that peer connected and not discouraged
//   (b) peers with noban or manual connections are never discouraged, and stay connected after messages whose only effect is misbehaviour
//   (c) any other peer after a fresh consensus-invalid full block built on the tip, or headers with invalid proof of work:
//       disconnected; discouraged iff its address is not a loopback ("local") address.
// Timeouts/stalling/eviction are excluded by construction: <= 100 s of mock time per case, <= 5 peers, pings answered.
#include <engine/verif.h>
#include <kits/chainsim.h>
#include <kits/netsim.h>

#include <blockencodings.h>
#include <chainparams.h>
#include <pow.h>
#include <streams.h>
#include <test/util/script.h>

#include <set>

using namespace verif;

namespace {

bool HasPerm(NetPermissionFlags have, NetPermissionFlags want) { return (uint32_t(have) & uint32_t(want)) == uint32_t(want); }

std::vector<uint8_t> SerTx(const CTransaction& tx, bool with_witness = true)
{
    DataStream ds;
    if (with_witness) ds << TX_WITH_WITNESS(tx); else ds << TX_NO_WITNESS(tx);
    return std::vector<uint8_t>(UCharCast(ds.data()), UCharCast(ds.data()) + ds.size());
}
std::vector<uint8_t> SerBlock(const CBlock& b)
{
    DataStream ds;
    ds << TX_WITH_WITNESS(b);
    return std::vector<uint8_t>(UCharCast(ds.data()), UCharCast(ds.data()) + ds.size());
}

void GrindValid(CBlockHeader& h) { while (!CheckProofOfWork(h.GetHash(), h.nBits, Params().GetConsensus())) ++h.nNonce; }
void GrindInvalid(CBlockHeader& h) { while (CheckProofOfWork(h.GetHash(), h.nBits, Params().GetConsensus())) ++h.nNonce; }

struct PeerModel {
    bool connected{false};   //!< handshake completed
    bool tx_allowed{false};
    bool protected_{false};  //!< noban or manual
    bool pb{false};
    bool loopback{false};    //!< 127/8 or ::1
    bool clearly_public{false};
    bool bloom{false};
    bool cmpct{false};
    bool only_tx_class{true};
    std::string desc;
};

} // namespace

VERIF_TARGET(c36_punish, nullptr, 48, 1000,
             "regtest node (120-block base, out of IBD, blocksonly in ~1/5 of the cases) with 2-5 peers drawn from {inbound, outbound-full, manual, block-relay, "
             "addr-fetch, feeler, private-broadcast} x {none, noban, relay, forcerelay, download, bloom+mempool, addr, all} x {public v4/v6, onion, loopback v4/v6, "
             "0/8, rfc1918}; <=28 ops: tx messages (valid, chained, conflicting/replacing, consensus-invalid: bad witness, negative/overflow outputs, duplicate "
             "inputs, loose coinbase, in<out, immature or missing inputs; non-standard, dust, low fee, non-final, witness-stripped, oversized, truncated, garbage, "
             "resent), tx inv/getdata/notfound, the punishable set (headers with high hash / bad nBits / non-continuous / oversize, full blocks invalid in 12 ways "
             "incl. mutated, oversize addr/inv, bad filterload/filteradd, bad sendcmpct, out-of-range getblocktxn, cmpctblock with bad header), valid blocks, small "
             "time steps. non-trivial = at least one rejected tx checked under (a) and at least one check of (b) or (c); distinct = peer classes + op kinds + outcomes")
{
    auto simp = std::make_unique<ChainSim>(ChainSimOpts{});
    ChainSim& sim = *simp;
    sim.LoadBase(120);
    const bool blocksonly = s.chance(52);
    NetSimOpts no;
    no.blocksonly = blocksonly;
    no.rng_seed = s.range<uint64_t>(0, 255);
    NetSim net(sim, no);
    if (blocksonly) st.cls("blocksonly");
    st.mix(uint64_t(blocksonly));
    st.note(blocksonly ? "blocksonly" : "txrelay");

    // ---------------------------------------------------------------- coins
    std::vector<std::pair<COutPoint, RefCoin>> mature, immature;
    {
        RefReplay r = sim.ledger.Replay(sim.TipHash());
        int next_h = sim.TipHeight() + 1;
        for (auto& [op, c] : r.utxo) {
            if (!c.coinbase || !(c.spk == P2WSH_OP_TRUE)) continue;
            if (next_h - c.height >= 100) mature.emplace_back(op, c); else immature.emplace_back(op, c);
        }
    }
    size_t next_coin = 0;
    std::vector<CTransactionRef> accepted;                       // my txs currently believed to be in the pool
    std::vector<std::pair<COutPoint, RefCoin>> pool_outputs;     // spendable outputs of accepted txs (P2WSH OP_TRUE)

    // ---------------------------------------------------------------- peers
    const unsigned npeers = 2 + s.range<unsigned>(0, 3);
    std::vector<PeerModel> pm;
    bool loopback6_used = false;
    for (unsigned i = 0; i < npeers; ++i) {
        PeerSpec ps;
        ps.conn = s.pick<ConnectionType>({ConnectionType::INBOUND, ConnectionType::OUTBOUND_FULL_RELAY, ConnectionType::INBOUND, ConnectionType::MANUAL,
                                          ConnectionType::BLOCK_RELAY, ConnectionType::OUTBOUND_FULL_RELAY, ConnectionType::INBOUND, ConnectionType::ADDR_FETCH,
                                          ConnectionType::MANUAL, ConnectionType::FEELER, ConnectionType::PRIVATE_BROADCAST, ConnectionType::INBOUND});
        ps.perms = s.pick<NetPermissionFlags>({NetPermissionFlags::None, NetPermissionFlags::NoBan, NetPermissionFlags::None, NetPermissionFlags::Relay,
                                               NetPermissionFlags::None, NetPermissionFlags::NoBan, NetPermissionFlags::ForceRelay, NetPermissionFlags::Download,
                                               NetPermissionFlags::None, NetPermissionFlags::BloomFilter | NetPermissionFlags::Mempool, NetPermissionFlags::All,
                                               NetPermissionFlags::Addr, NetPermissionFlags::None, NetPermissionFlags::Implicit | NetPermissionFlags::NoBan});
        ps.addr = s.pick<AddrKind>({AddrKind::ROUTABLE_V4, AddrKind::LOOPBACK_V4, AddrKind::ROUTABLE_V4, AddrKind::LOOPBACK_V4, AddrKind::ROUTABLE_V6,
                                    AddrKind::LOOPBACK_V6, AddrKind::ONION, AddrKind::PRIVATE_V4, AddrKind::ZERO_V4, AddrKind::LOOPBACK_V4, AddrKind::ROUTABLE_V4});
        if (ps.addr == AddrKind::LOOPBACK_V6) { if (loopback6_used) ps.addr = AddrKind::LOOPBACK_V4; else loopback6_used = true; }
        ps.inbound_onion = ps.conn == ConnectionType::INBOUND && AddrKindIsLocal(ps.addr) && s.chance(64);
        if (s.chance(80)) ps.our_services = ServiceFlags(ps.our_services | NODE_BLOOM);
        ps.wtxidrelay = !s.chance(48);
        ps.relay_txs = !s.chance(40);
        ps.sendcmpct = s.chance(96);
        ps.sendcmpct_hb = ps.sendcmpct && s.boolean();
        ps.sendheaders = s.chance(80);
        ps.version = s.pick<int32_t>({PROTOCOL_VERSION, PROTOCOL_VERSION, PROTOCOL_VERSION, PROTOCOL_VERSION, 70015, PROTOCOL_VERSION, 70012, 70016});
        int p = net.AddPeer(ps);
        bool ok = net.Handshake(p);
        PeerModel m;
        m.connected = ok;
        m.pb = ps.conn == ConnectionType::PRIVATE_BROADCAST;
        // statement: "a peer that is allowed to send transactions": not block-relay-only, not a feeler, and in blocks-only mode only with the relay permission
        m.tx_allowed = ps.conn != ConnectionType::BLOCK_RELAY && ps.conn != ConnectionType::FEELER && !(blocksonly && !HasPerm(ps.perms, NetPermissionFlags::Relay));
        m.protected_ = HasPerm(ps.perms, NetPermissionFlags::NoBan) || ps.conn == ConnectionType::MANUAL;
        m.loopback = ps.addr == AddrKind::LOOPBACK_V4 || ps.addr == AddrKind::LOOPBACK_V6;
        m.clearly_public = ps.addr == AddrKind::ROUTABLE_V4 || ps.addr == AddrKind::ROUTABLE_V6 || ps.addr == AddrKind::ONION;
        m.bloom = (ps.our_services & NODE_BLOOM) != 0;
        m.cmpct = ps.sendcmpct && ps.version >= 70014;
        m.desc = std::string(ConnTypeName(ps.conn)) + "/" + AddrKindName(ps.addr) + "/perm" + std::to_string(uint32_t(ps.perms) & 0xffff);
        st.note("peer", p, "=", m.desc, ok ? "" : "(not connected)");
        st.cls(std::string("conn:") + ConnTypeName(ps.conn));
        st.cls(std::string("addr:") + AddrKindName(ps.addr));
        if (HasPerm(ps.perms, NetPermissionFlags::NoBan)) st.cls("perm:noban");
        if (ps.perms == NetPermissionFlags::None) st.cls("perm:none");
        st.mix(uint64_t(ps.conn)); st.mix(uint64_t(ps.perms)); st.mix(uint64_t(ps.addr));
        pm.push_back(m);
    }
    net.TickAll();

    auto settle_and_check_globals = [&](const char* where) {
        net.TickAll();
        for (size_t p = 0; p < pm.size(); ++p) {
            if (pm[p].protected_) {
                st.steps++;
                VCHECK(!net.Discouraged(int(p)), "c36.protected-discouraged", "noban/manual peer discouraged", pm[p].desc, where);
            }
        }
    };

    unsigned n_tx_invalid_checked = 0, n_tx_checked = 0, n_b = 0, n_c = 0;
    int64_t advanced = 0;
    uint32_t uniq = 0;

    auto live_peer = [&](bool want_non_pb) -> int {
        std::vector<int> c;
        for (size_t p = 0; p < pm.size(); ++p) if (pm[p].connected && !net.Disconnected(int(p)) && !(want_non_pb && pm[p].pb)) c.push_back(int(p));
        if (c.empty()) return -1;
        return c[s.index(c.size())];
    };

    auto fresh_coin = [&]() -> std::optional<std::pair<COutPoint, RefCoin>> {
        if (next_coin < mature.size()) return mature[next_coin++];
        return std::nullopt;
    };
    auto anyone_out = [&](CAmount v) { return CTxOut(v, P2WSH_OP_TRUE); };

    const unsigned nops = s.range<unsigned>(3, 28);
    for (unsigned op = 0; op < nops && !s.exhausted(); ++op) {
        unsigned sel = s.range<unsigned>(0, 99);
        if (sel < 52) {
            // ------------------------------------------------------------ a tx message
            int p = live_peer(true);
            if (p < 0) break;
            unsigned kind = s.range<unsigned>(0, 23);
            std::vector<uint8_t> bytes;
            CTransactionRef sent_tx;
            std::string kname;
            auto pick_input = [&]() -> std::optional<std::pair<COutPoint, RefCoin>> {
                if (!pool_outputs.empty() && s.chance(90)) { auto c = pool_outputs.back(); pool_outputs.pop_back(); return c; }
                return fresh_coin();
            };
            auto simple_spend = [&](const std::pair<COutPoint, RefCoin>& in, CAmount fee) {
                return sim.MakeTx({in}, {anyone_out(in.second.value - fee - 1000 * (++uniq % 50))});
            };
            switch (kind) {
            default:
            case 0: case 1: case 2: case 3: { // valid (possibly chained on a pool output)
                auto in = pick_input();
                if (!in) { kname = "none"; break; }
                CMutableTransaction m = simple_spend(*in, 20000);
                if (s.chance(60)) m.vout.emplace_back(30000, sim.keys.Script(SpkType::P2WPKH, 1)), m.vout[0].nValue -= 30000;
                sent_tx = MakeTransactionRef(m); kname = "valid"; break;
            }
            case 4: { // consensus-invalid witness: extra stack item (clean-stack rule of witness scripts)
                auto in = pick_input(); if (!in) { kname = "none"; break; }
                CMutableTransaction m = simple_spend(*in, 20000);
                m.vin[0].scriptWitness.stack.insert(m.vin[0].scriptWitness.stack.begin(), std::vector<unsigned char>{0x01});
                sent_tx = MakeTransactionRef(m); kname = "bad-witness-cleanstack"; break;
            }
            case 5: { // witness program mismatch
                auto in = pick_input(); if (!in) { kname = "none"; break; }
                CMutableTransaction m = simple_spend(*in, 20000);
                m.vin[0].scriptWitness.stack = {std::vector<unsigned char>{OP_TRUE, OP_TRUE}};
                sent_tx = MakeTransactionRef(m); kname = "bad-witness-program-mismatch"; break;
            }
            case 6: { // negative output
                auto in = pick_input(); if (!in) { kname = "none"; break; }
                CMutableTransaction m = simple_spend(*in, 20000);
                m.vout.emplace_back(CAmount(-1), P2WSH_OP_TRUE);
                sent_tx = MakeTransactionRef(m); kname = "vout-negative"; break;
            }
            case 7: { // output above MAX_MONEY
                auto in = pick_input(); if (!in) { kname = "none"; break; }
                CMutableTransaction m = simple_spend(*in, 20000);
                m.vout[0].nValue = 21000000LL * COIN + 1;
                sent_tx = MakeTransactionRef(m); kname = "vout-toolarge"; break;
            }
            case 8: { // duplicate inputs
                auto in = pick_input(); if (!in) { kname = "none"; break; }
                CMutableTransaction m = simple_spend(*in, 20000);
                m.vin.push_back(m.vin[0]);
                sent_tx = MakeTransactionRef(m); kname = "inputs-duplicate"; break;
            }
            case 9: { // a coinbase as loose transaction
                CMutableTransaction m;
                m.version = 2; m.vin.resize(1); m.vin[0].prevout.SetNull(); m.vin[0].scriptSig = CScript() << 500 << OP_0 << int64_t(++uniq);
                m.vout.push_back(anyone_out(50 * COIN));
                sent_tx = MakeTransactionRef(m); kname = "loose-coinbase"; break;
            }
            case 10: { // outputs exceed inputs
                auto in = pick_input(); if (!in) { kname = "none"; break; }
                CMutableTransaction m = simple_spend(*in, 20000);
                m.vout[0].nValue = in->second.value + 1 + (++uniq);
                sent_tx = MakeTransactionRef(m); kname = "in-belowout"; break;
            }
            case 11: { // immature coinbase spend
                if (immature.empty()) { kname = "none"; break; }
                auto in = immature[s.index(immature.size())];
                CMutableTransaction m = simple_spend(in, 20000);
                sent_tx = MakeTransactionRef(m); kname = "premature-spend"; break;
            }
            case 12: { // orphan (unknown parent), sometimes a family of them
                ++uniq;
                COutPoint fake(Txid::FromUint256(uint256{uint8_t(0x40 + (uniq & 0x3f))}), uniq & 1);
                CMutableTransaction m = sim.MakeTx({{fake, RefCoin{COIN, P2WSH_OP_TRUE, 1, false}}}, {anyone_out(COIN - 20000)});
                sent_tx = MakeTransactionRef(m); kname = "orphan"; break;
            }
            case 13: { // conflicting: same input as an accepted tx, lower or much higher fee
                if (accepted.empty()) { kname = "none"; break; }
                CTransactionRef t = accepted[s.index(accepted.size())];
                RefCoin c{0, P2WSH_OP_TRUE, 1, false};
                CAmount outsum = 0; for (auto& o : t->vout) outsum += o.nValue;
                bool higher = s.boolean();
                CMutableTransaction m = sim.MakeTx({{t->vin[0].prevout, c}}, {anyone_out(higher ? outsum - 500000 : outsum - 10 - CAmount(++uniq))});
                sent_tx = MakeTransactionRef(m); kname = higher ? "conflict-higher-fee" : "conflict-lower-fee"; break;
            }
            case 14: { // witness stripped
                auto in = pick_input(); if (!in) { kname = "none"; break; }
                CMutableTransaction m = simple_spend(*in, 20000);
                sent_tx = MakeTransactionRef(m);
                bytes = SerTx(*sent_tx, /*with_witness=*/false); kname = "witness-stripped"; break;
            }
            case 15: { // non-standard: version 0 / dust / low fee / non-final / bare multisig-ish output
                auto in = pick_input(); if (!in) { kname = "none"; break; }
                unsigned sub = s.range<unsigned>(0, 4);
                CMutableTransaction m = simple_spend(*in, sub == 2 ? 0 : 20000);
                if (sub == 0) { m.version = 0; kname = "nonstd-version"; }
                else if (sub == 1) { m.vout.emplace_back(1, P2WSH_OP_TRUE); kname = "dust"; }
                else if (sub == 2) { kname = "zero-fee"; }
                else if (sub == 3) { m.nLockTime = 2000000; m.vin[0].nSequence = 0; kname = "non-final"; }
                else { m.vout.emplace_back(10000, CScript() << OP_1 << std::vector<unsigned char>(33, 2) << OP_1 << OP_CHECKMULTISIG << OP_DROP); kname = "nonstd-script"; }
                sent_tx = MakeTransactionRef(m); break;
            }
            case 16: { // oversized (above the standard weight limit)
                auto in = pick_input(); if (!in) { kname = "none"; break; }
                CMutableTransaction m = simple_spend(*in, 20000);
                CAmount each = 1000;
                for (int k = 0; k < 2400; ++k) m.vout.emplace_back(each, P2WSH_OP_TRUE);
                m.vout[0].nValue -= each * 2400;
                sent_tx = MakeTransactionRef(m); kname = "oversized"; break;
            }
            case 17: { // truncated serialization
                auto in = pick_input(); if (!in) { kname = "none"; break; }
                CMutableTransaction m = simple_spend(*in, 20000);
                bytes = SerTx(CTransaction(m));
                bytes.resize(s.range<size_t>(0, bytes.size() - 1)); kname = "truncated"; break;
            }
            case 18: { // garbage bytes
                bytes = s.bytes(s.range<size_t>(0, 60)); kname = "garbage"; break;
            }
            case 19: { // resend something already sent/accepted
                if (accepted.empty()) { kname = "none"; break; }
                sent_tx = accepted[s.index(accepted.size())]; kname = "resend"; break;
            }
            case 20: { // empty vin (ambiguous with the segwit marker) / empty vout
                auto in = pick_input(); if (!in) { kname = "none"; break; }
                CMutableTransaction m = simple_spend(*in, 20000);
                if (s.boolean()) { m.vout.clear(); kname = "vout-empty"; } else { m.vin.clear(); kname = "vin-empty"; }
                sent_tx = MakeTransactionRef(m); break;
            }
            case 21: { // missing input although the txid exists (bad output index)
                auto in = pick_input(); if (!in) { kname = "none"; break; }
                auto bad = *in; bad.first.n += 7;
                CMutableTransaction m = simple_spend(bad, 20000);
                sent_tx = MakeTransactionRef(m); kname = "missing-output-index"; break;
            }
            case 22: { // bad signature on a key-spend: pay to P2WPKH first (if a funded one exists this is a spend with a broken signature)
                auto in = pick_input(); if (!in) { kname = "none"; break; }
                CMutableTransaction m = simple_spend(*in, 20000);
                m.vin[0].scriptWitness.stack = {std::vector<unsigned char>(71, 0x30), std::vector<unsigned char>(33, 0x02)};
                sent_tx = MakeTransactionRef(m); kname = "bad-witness-garbage-sig"; break;
            }
            case 23: { // scriptSig on a native segwit spend (witness malleated)
                auto in = pick_input(); if (!in) { kname = "none"; break; }
                CMutableTransaction m = simple_spend(*in, 20000);
                m.vin[0].scriptSig = CScript() << OP_1;
                sent_tx = MakeTransactionRef(m); kname = "segwit-with-scriptsig"; break;
            }
            }
            if (kname == "none") continue;
            if (bytes.empty() && sent_tx) bytes = SerTx(*sent_tx);
            const bool before_ok = !net.Disconnected(p) && !net.Discouraged(p);
            net.SendRaw(p, NetMsgType::TX, bytes);
            net.TickAll();
            bool in_pool = sent_tx && sim.mempool().exists(sent_tx->GetWitnessHash());
            if (in_pool && kname != "resend") {
                accepted.push_back(sent_tx);
                for (uint32_t o = 0; o < sent_tx->vout.size(); ++o)
                    if (sent_tx->vout[o].scriptPubKey == P2WSH_OP_TRUE && sent_tx->vout[o].nValue > 200000) pool_outputs.emplace_back(COutPoint(sent_tx->GetHash(), o), RefCoin{sent_tx->vout[o].nValue, P2WSH_OP_TRUE, 0, false});
            }
            st.note("tx ", kname, " from peer", p, in_pool ? " ->pool" : " ->not in pool");
            st.cls("tx:" + kname);
            st.cls(in_pool ? "tx-accepted" : "tx-not-accepted");
            st.mix("tx:" + kname); st.mix(uint64_t(in_pool));
            if (pm[p].tx_allowed) {
                if (before_ok) {
                    st.steps++;
                    n_tx_checked++;
                    if (!in_pool) n_tx_invalid_checked++;
                    VCHECK(!net.Disconnected(p), "c36.tx-disconnect", "peer disconnected after a tx message", kname, pm[p].desc);
                    VCHECK(!net.Discouraged(p), "c36.tx-discourage", "peer discouraged after a tx message", kname, pm[p].desc);
                    st.cls("a-checked");
                }
            } else {
                pm[p].only_tx_class = false; // such a peer is disconnected for protocol violation: not covered by the statement
                st.cls("tx-from-peer-not-allowed");
            }
        } else if (sel < 60) {
            // ------------------------------------------------------------ tx inventory noise (no assertion of its own)
            int p = live_peer(true);
            if (p < 0) break;
            unsigned kind = s.range<unsigned>(0, 2);
            std::vector<CInv> invs;
            unsigned k = 1 + s.range<unsigned>(0, 4);
            for (unsigned i = 0; i < k; ++i) {
                uint256 h;
                if (!accepted.empty() && s.boolean()) { auto& t = accepted[s.index(accepted.size())]; h = net.Spec(p).wtxidrelay ? t->GetWitnessHash().ToUint256() : t->GetHash().ToUint256(); }
                else h = uint256{uint8_t(0x80 + (++uniq & 0x3f))};
                invs.emplace_back(net.Spec(p).wtxidrelay && net.Spec(p).version >= 70016 ? MSG_WTX : MSG_TX, h);
            }
            const char* t = kind == 0 ? NetMsgType::INV : kind == 1 ? NetMsgType::GETDATA : NetMsgType::NOTFOUND;
            if (!pm[p].tx_allowed) pm[p].only_tx_class = false; // tx inv from a peer that may not send txs is a protocol violation
            net.Send(p, t, invs);
            st.note(t, " x", k, " from peer", p);
            st.cls(std::string("txinv:") + t);
            st.mix(std::string("txinv:") + t);
        } else if (sel < 90) {
            // ------------------------------------------------------------ the punishable set
            int p = live_peer(true);
            if (p < 0) break;
            pm[p].only_tx_class = false;
            unsigned kind = s.range<unsigned>(0, 25);
            std::string kname;
            bool expect_c = false;      // statement clause (c) applies
            bool misbehaviour_only = true;
            bool sent = false;
            const uint256 tip = sim.TipHash();
            const RefBlock& tipb = sim.ledger.At(tip);
            auto base_header = [&]() {
                CBlockHeader h;
                h.nVersion = 0x20000000; h.hashPrevBlock = tip; h.hashMerkleRoot = uint256{uint8_t(++uniq)}; h.nTime = tipb.time + 1 + (uniq & 3);
                h.nBits = Params().GenesisBlock().nBits; h.nNonce = uniq * 1000;
                return h;
            };
            auto send_block = [&](const CBlock& b) { sent = net.SendRaw(p, NetMsgType::BLOCK, SerBlock(b)); };
            BlockSpec spec;
            spec.prev = tip;
            spec.extra_nonce = ++uniq;
            switch (kind) {
            default:
            case 0: case 1: { // headers: hash above target
                CBlockHeader h = base_header(); GrindInvalid(h);
                sent = net.SendRaw(p, NetMsgType::HEADERS, NetSim::HeadersPayload({h})); kname = "headers-high-hash"; expect_c = true; break;
            }
            case 2: { // headers: nBits zero / negative / overflow
                CBlockHeader h = base_header(); h.nBits = s.pick<uint32_t>({0u, 0x01800000u, 0xff123456u, 0x1d00ffffu});
                if (h.nBits == 0x1d00ffffu) GrindInvalid(h); // mainnet difficulty: any regtest-ground hash is far above the target
                sent = net.SendRaw(p, NetMsgType::HEADERS, NetSim::HeadersPayload({h})); kname = "headers-bad-nbits"; expect_c = true; break;
            }
            case 3: { // headers: second of two has invalid PoW
                CBlockHeader h1 = base_header(); GrindValid(h1);
                CBlockHeader h2 = base_header(); h2.hashPrevBlock = h1.GetHash(); GrindInvalid(h2);
                sent = net.SendRaw(p, NetMsgType::HEADERS, NetSim::HeadersPayload({h1, h2})); kname = "headers-second-high-hash"; expect_c = true; break;
            }
            case 4: { // headers: valid PoW but not continuous (punishable, but not part of clause (c))
                CBlockHeader h1 = base_header(); GrindValid(h1);
                CBlockHeader h2 = base_header(); h2.hashPrevBlock = uint256{0x77}; GrindValid(h2);
                sent = net.SendRaw(p, NetMsgType::HEADERS, NetSim::HeadersPayload({h1, h2})); kname = "headers-non-continuous"; break;
            }
            case 5: { // headers: more than 2000
                if (!s.chance(64)) { kname = "none"; break; }
                CBlockHeader h = base_header(); GrindValid(h);
                sent = net.SendRaw(p, NetMsgType::HEADERS, NetSim::HeadersPayload(std::vector<CBlockHeader>(2001, h))); kname = "headers-oversize"; break;
            }
            case 6: case 7: { // block: coinbase pays too much
                spec.coinbase_value = RefLedger::Subsidy(tipb.height + 1, sim.ledger.halving_interval) + 1 + (uniq & 7);
                auto b = sim.Build(spec); send_block(*b); kname = "block-bad-cb-amount"; expect_c = true; break;
            }
            case 8: { // block: spends an output that does not exist
                COutPoint fake(Txid::FromUint256(uint256{uint8_t(0x20 + (uniq & 0x1f))}), 0);
                spec.txs = {MakeTransactionRef(sim.MakeTx({{fake, RefCoin{COIN, P2WSH_OP_TRUE, 1, false}}}, {anyone_out(COIN)}))};
                auto b = sim.Build(spec); send_block(*b); kname = "block-missing-input"; expect_c = true; break;
            }
            case 9: { // block: immature coinbase spend
                if (immature.empty()) { kname = "none"; break; }
                auto in = immature[s.index(immature.size())];
                if (tipb.height + 1 - in.second.height >= 100) { kname = "none"; break; }
                spec.txs = {MakeTransactionRef(sim.MakeTx({in}, {anyone_out(in.second.value)}))};
                auto b = sim.Build(spec); send_block(*b); kname = "block-premature-spend"; expect_c = true; break;
            }
            case 10: { // block: script failure (extra witness item)
                auto in = fresh_coin(); if (!in) { kname = "none"; break; }
                CMutableTransaction m = sim.MakeTx({*in}, {anyone_out(in->second.value)});
                m.vin[0].scriptWitness.stack.insert(m.vin[0].scriptWitness.stack.begin(), std::vector<unsigned char>{0x01});
                spec.txs = {MakeTransactionRef(m)};
                auto b = sim.Build(spec); send_block(*b); kname = "block-bad-script"; expect_c = true; break;
            }
            case 11: { // block: the same coin spent twice
                auto in = fresh_coin(); if (!in) { kname = "none"; break; }
                spec.txs = {MakeTransactionRef(sim.MakeTx({*in}, {anyone_out(in->second.value)})), MakeTransactionRef(sim.MakeTx({*in}, {anyone_out(in->second.value - 1)}))};
                auto b = sim.Build(spec); send_block(*b); kname = "block-double-spend"; expect_c = true; break;
            }
            case 12: { // block: merkle root does not match the transactions
                auto b = sim.Build(spec);
                CBlock b2 = *b; b2.hashMerkleRoot = uint256{uint8_t(uniq)}; GrindValid(b2);
                send_block(b2); kname = "block-mutated-merkle"; expect_c = true; break;
            }
            case 13: { // block: witness changed after the commitment was made
                auto in = fresh_coin(); if (!in) { kname = "none"; break; }
                spec.txs = {MakeTransactionRef(sim.MakeTx({*in}, {anyone_out(in->second.value)}))};
                auto b = sim.Build(spec);
                CBlock b2 = *b;
                CMutableTransaction m(*b2.vtx[1]); m.vin[0].scriptWitness.stack.push_back({0x01}); b2.vtx[1] = MakeTransactionRef(m);
                send_block(b2); kname = "block-mutated-witness"; expect_c = true; break;
            }
            case 14: { // block: hash above target
                auto b = sim.Build(spec);
                CBlock b2 = *b; GrindInvalid(b2);
                send_block(b2); kname = "block-high-hash"; expect_c = true; break;
            }
            case 15: { // block: wrong difficulty bits (valid PoW for those bits)
                spec.bits = 0x207ffffe;
                auto b = sim.Build(spec); send_block(*b); kname = "block-bad-diffbits"; expect_c = true; break;
            }
            case 16: { // block: timestamp not after the median time past
                spec.time = uint32_t(sim.ledger.MedianTimePast(tip));
                auto b = sim.Build(spec); send_block(*b); kname = "block-time-too-old"; expect_c = true; break;
            }
            case 17: { // block: duplicated transaction (CVE-2012-2459 style list)
                auto in = fresh_coin(); if (!in) { kname = "none"; break; }
                auto t = MakeTransactionRef(sim.MakeTx({*in}, {anyone_out(in->second.value)}));
                spec.txs = {t, t};
                auto b = sim.Build(spec); send_block(*b); kname = "block-duplicate-tx"; expect_c = true; break;
            }
            case 18: { // block: timestamp too far in the future (not an invalidity: may become valid) -> no expectation
                spec.time = uint32_t(net.Now() + 2 * 60 * 60 + 30);
                auto b = sim.Build(spec); send_block(*b); kname = "block-time-too-new"; misbehaviour_only = false; break;
            }
            case 19: { // header announced first (valid header), then the invalid block is delivered on request
                spec.coinbase_value = RefLedger::Subsidy(tipb.height + 1, sim.ledger.halving_interval) + 5;
                auto b = sim.Build(spec);
                net.SendRaw(p, NetMsgType::HEADERS, NetSim::HeadersPayload({static_cast<const CBlockHeader&>(*b)}));
                if (net.Disconnected(p)) { kname = "none"; break; }
                send_block(*b); kname = "block-announced-then-invalid"; expect_c = true; break;
            }
            case 20: { // addr with more than 1000 entries
                std::vector<CAddress> v(1001, NetSim::MakeAddr(AddrKind::ROUTABLE_V4, 5000));
                sent = net.Send(p, NetMsgType::ADDR, CAddress::V1_NETWORK(v)); kname = "addr-oversize"; break;
            }
            case 21: { // inv with more than 50000 entries (rare: 1.8 MB)
                if (!s.chance(24)) { kname = "none"; break; }
                std::vector<CInv> v(50001, CInv(MSG_TX, uint256{1}));
                sent = net.Send(p, NetMsgType::INV, v); kname = "inv-oversize"; break;
            }
            case 22: { // bloom filter messages (only where the node offers NODE_BLOOM to this peer: otherwise it is a plain protocol disconnect)
                if (!pm[p].bloom) { kname = "none"; break; }
                unsigned sub = s.range<unsigned>(0, 2);
                if (sub == 0) { DataStream ds; ds << std::vector<unsigned char>(36001, 0xff) << uint32_t(5) << uint32_t(0) << uint8_t(0);
                                sent = net.SendRaw(p, NetMsgType::FILTERLOAD, std::vector<uint8_t>(UCharCast(ds.data()), UCharCast(ds.data()) + ds.size())); kname = "filterload-too-large"; }
                else if (sub == 1) { sent = net.Send(p, NetMsgType::FILTERADD, std::vector<unsigned char>(521, 1)); kname = "filteradd-too-large"; }
                else { sent = net.Send(p, NetMsgType::FILTERADD, std::vector<unsigned char>(8, 1)); kname = "filteradd-without-filter"; }
                break;
            }
            case 23: { // sendcmpct with a non-boolean announce flag
                sent = net.Send(p, NetMsgType::SENDCMPCT, uint8_t(2), uint64_t(2)); kname = "sendcmpct-bad-flag"; break;
            }
            case 24: { // getblocktxn with an index beyond the block
                DataStream ds; ds << tip; WriteCompactSize(ds, 1); WriteCompactSize(ds, 5 + (uniq & 3));
                sent = net.SendRaw(p, NetMsgType::GETBLOCKTXN, std::vector<uint8_t>(UCharCast(ds.data()), UCharCast(ds.data()) + ds.size())); kname = "getblocktxn-out-of-range"; break;
            }
            case 25: { // cmpctblock announcing a header with invalid PoW
                if (!pm[p].cmpct || blocksonly) { kname = "none"; break; }
                auto b = sim.Build(spec);
                CBlock b2 = *b; GrindInvalid(b2);
                CBlockHeaderAndShortTxIDs c{b2, uint64_t(uniq)};
                sent = net.Send(p, NetMsgType::CMPCTBLOCK, c); kname = "cmpctblock-high-hash"; break;
            }
            }
            if (kname == "none" || !sent) continue;
            net.TickAll();
            st.note(kname, " from peer", p, net.Disconnected(p) ? " ->disconnected" : " ->stays", net.Discouraged(p) ? "+discouraged" : "");
            st.cls("pun:" + kname);
            st.mix("pun:" + kname);
            if (pm[p].protected_) {
                if (misbehaviour_only) {
                    st.steps++; n_b++;
                    VCHECK(!net.Disconnected(p), "c36.protected-disconnect", "noban/manual peer disconnected for misbehaviour", kname, pm[p].desc);
                    VCHECK(!net.Discouraged(p), "c36.protected-discouraged", "noban/manual peer discouraged", kname, pm[p].desc);
                    st.cls("b-checked");
                }
            } else if (expect_c) {
                st.steps++; n_c++;
                VCHECK(net.Disconnected(p), "c36.invalid-not-disconnected", "peer not disconnected after", kname, pm[p].desc);
                if (pm[p].loopback) {
                    VCHECK(!net.Discouraged(p), "c36.local-discouraged", "peer with a local address discouraged after", kname, pm[p].desc);
                    st.cls("c-checked-local");
                } else if (pm[p].clearly_public) {
                    VCHECK(net.Discouraged(p), "c36.invalid-not-discouraged", "peer with a public address not discouraged after", kname, pm[p].desc);
                    st.cls("c-checked-public");
                } else {
                    st.cls("c-checked-ambiguous-addr");
                }
            }
            st.mix(uint64_t(net.Disconnected(p) * 2 + net.Discouraged(p)));
            if (net.Disconnected(p) && s.chance(128)) { net.Reap(p); st.cls("reaped"); }
        } else if (sel < 95) {
            // ------------------------------------------------------------ a valid block from some peer (chain moves on)
            int p = live_peer(true);
            if (p < 0) break;
            pm[p].only_tx_class = false;
            BlockSpec spec;
            spec.prev = sim.TipHash();
            spec.extra_nonce = ++uniq;
            if (!accepted.empty() && s.boolean()) {
                // mine the pool's first accepted tx if its input is a confirmed coin
                CTransactionRef t = accepted.front();
                bool confirmed_input = false;
                for (auto& mc : mature) if (mc.first == t->vin[0].prevout) { confirmed_input = true; spec.fees = mc.second.value; }
                if (confirmed_input && t->vin.size() == 1 && sim.mempool().exists(t->GetWitnessHash())) {
                    for (auto& o : t->vout) spec.fees -= o.nValue;
                    spec.txs = {t};
                } else spec.fees = 0;
            }
            auto b = sim.Build(spec);
            net.SendRaw(p, NetMsgType::BLOCK, SerBlock(*b));
            net.TickAll();
            bool on_tip = sim.TipHash() == b->GetHash();
            st.note("valid block from peer", p, on_tip ? " ->tip" : " ->NOT tip");
            st.cls(on_tip ? "valid-block-accepted" : "valid-block-not-tip");
            st.mix(uint64_t(0xb10c));
            if (on_tip) {
                // pool contents may have changed
                std::vector<CTransactionRef> still;
                for (auto& t : accepted) if (sim.mempool().exists(t->GetWitnessHash())) still.push_back(t);
                accepted = still;
                pool_outputs.clear();
            }
        } else {
            // ------------------------------------------------------------ time passes (bounded: no timeout can fire)
            int64_t d = 1 + s.range<int64_t>(0, 7);
            if (advanced + d > 100) continue;
            advanced += d;
            net.Advance(d);
            net.TickAll();
            st.note("advance ", d, "s");
            st.mix(uint64_t(0x71));
        }
        settle_and_check_globals("after-op");
    }

    // ---------------------------------------------------------------- end of case: peers that only ever sent transaction-class messages
    net.Advance(1);
    settle_and_check_globals("end");
    for (size_t p = 0; p < pm.size(); ++p) {
        if (!pm[p].connected || pm[p].pb || !pm[p].tx_allowed || !pm[p].only_tx_class) continue;
        st.steps++;
        VCHECK(!net.Disconnected(int(p)) && !net.Discouraged(int(p)), "c36.tx-only-peer-punished", "a peer that only sent tx-class messages ended disconnected/discouraged", pm[p].desc);
    }
    st.nontrivial = n_tx_invalid_checked >= 1 && (n_b + n_c) >= 1;
    if (n_tx_invalid_checked) st.cls("a-checked-rejected-tx");
    st.note("checks a=", n_tx_checked, " (rejected ", n_tx_invalid_checked, ") b=", n_b, " c=", n_c);
}
