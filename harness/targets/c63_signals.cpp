// C63 — Validation notifications describe exactly what happened, in order.
//
// A regtest node (ChainSim) with the production notification path (CScheduler thread + SerialTaskRunner; sometimes the
// synchronous runner) is driven through a generated history: mempool submissions (chains, replacements), blocks mined from
// pool subsets (+ conflicting non-pool transactions), competing branches that overtake the tip (reorgs of depth 1..3),
// branches whose last block is invalid (the node switches over and back), InvalidateBlock / reconsider. A recording
// CValidationInterface subscriber logs every callback in arrival order. After every operation the queue is drained and the
// log is REPLAYED from the state the subscriber was registered in:
//   * BlockDisconnected(b) must name the replayed tip, BlockConnected(b) must build on it           (c63.replay-order)
//   * the replayed tip equals ActiveChain().Tip() read under cs_main                                (c63.replay-tip)
//   * every tip the node itself announced synchronously (kernel blockTip -> uiInterface.NotifyBlockTip, an independent
//     observation made while validation holds its locks) occurs, in order, among the replayed tips  (c63.tip-sequence)
//   * UpdatedBlockTip(new) arrives when the replayed tip is `new`                                    (c63.updated-tip)
//   * reported blocks are byte-identical (with witness) to the blocks the harness delivered         (c63.block-bytes)
//   * a removal (TransactionRemovedFromMempool / MempoolTransactionsRemovedForBlock) names a transaction that was reported
//     added before and not yet removed; an addition names a transaction not currently reported      (c63.removed-before-added, c63.added-twice)
//   * the replayed pool equals the real pool's wtxid set; reported txs are byte-identical to the submitted ones (c63.replay-pool, c63.tx-bytes)
// The subscriber never looks at node state from inside a callback (with the synchronous runner callbacks run inside validation).
#include <engine/verif.h>
#include <kits/chainsim.h>
#include <kits/schedhook.h>

#include <node/interface_ui.h>
#include <streams.h>
#include <test/util/script.h>
#include <util/time.h>

#include <algorithm>
#include <map>
#include <mutex>
#include <set>

using namespace verif;

// ThreadSanitizer defaults for this binary (ignored by the ASan build): the first report ends the process, so the failing input is the current case
extern "C" const char* __tsan_default_options() { return "halt_on_error=1:second_deadlock_stack=1:exitcode=66:report_signal_unsafe=0"; }

namespace {

struct Ev {
    enum Kind { CONNECT, DISCONNECT, UPDATED_TIP, ADDED, REMOVED, REMOVED_FOR_BLOCK } kind;
    std::shared_ptr<const CBlock> block;
    uint256 index_hash, index_prev;
    int index_height{-1};
    CTransactionRef tx;
    int reason{-1};
    uint64_t seq{0};
    uint256 block_hash;
};

class Recorder : public CValidationInterface
{
public:
    std::mutex m;
    std::vector<Ev> evs;
    void Push(Ev&& e)
    {
        sched::Point("callback");
        std::lock_guard<std::mutex> l(m);
        evs.push_back(std::move(e));
    }
    std::vector<Ev> Drain()
    {
        std::lock_guard<std::mutex> l(m);
        std::vector<Ev> out;
        out.swap(evs);
        return out;
    }

protected:
    void BlockConnected(const kernel::ChainstateRole&, const std::shared_ptr<const CBlock>& block, const CBlockIndex* pindex) override
    {
        Ev e{Ev::CONNECT};
        e.block = block;
        e.index_hash = pindex->GetBlockHash();
        e.index_prev = pindex->pprev ? pindex->pprev->GetBlockHash() : uint256{};
        e.index_height = pindex->nHeight;
        Push(std::move(e));
    }
    void BlockDisconnected(const std::shared_ptr<const CBlock>& block, const CBlockIndex* pindex) override
    {
        Ev e{Ev::DISCONNECT};
        e.block = block;
        e.index_hash = pindex->GetBlockHash();
        e.index_prev = pindex->pprev ? pindex->pprev->GetBlockHash() : uint256{};
        e.index_height = pindex->nHeight;
        Push(std::move(e));
    }
    void UpdatedBlockTip(const CBlockIndex* pindexNew, const CBlockIndex* pindexFork, bool) override
    {
        Ev e{Ev::UPDATED_TIP};
        e.index_hash = pindexNew->GetBlockHash();
        e.index_prev = pindexFork ? pindexFork->GetBlockHash() : uint256{};
        Push(std::move(e));
    }
    void TransactionAddedToMempool(const NewMempoolTransactionInfo& tx, uint64_t seq) override
    {
        Ev e{Ev::ADDED};
        e.tx = tx.info.m_tx;
        e.seq = seq;
        Push(std::move(e));
    }
    void TransactionRemovedFromMempool(const CTransactionRef& tx, MemPoolRemovalReason reason, uint64_t seq) override
    {
        Ev e{Ev::REMOVED};
        e.tx = tx;
        e.reason = int(reason);
        e.seq = seq;
        Push(std::move(e));
    }
    void MempoolTransactionsRemovedForBlock(const std::shared_ptr<const CBlock>& block, const std::vector<RemovedMempoolTransactionInfo>& txs, unsigned int) override
    {
        for (auto& t : txs) {
            Ev e{Ev::REMOVED_FOR_BLOCK};
            e.tx = t.info.m_tx;
            e.block_hash = block->GetHash();
            Push(std::move(e));
        }
    }
};

std::vector<unsigned char> Ser(const CBlock& b)
{
    DataStream ds;
    ds << TX_WITH_WITNESS(b);
    return {UCharCast(ds.data()), UCharCast(ds.data()) + ds.size()};
}
std::vector<unsigned char> Ser(const CTransaction& t)
{
    DataStream ds;
    ds << TX_WITH_WITNESS(t);
    return {UCharCast(ds.data()), UCharCast(ds.data()) + ds.size()};
}

struct World {
    ChainSim& sim;
    Src& s;
    Stats& st;
    std::shared_ptr<Recorder> rec;
    // replay state
    uint256 replay_tip;
    std::map<uint256, CTransactionRef> replay_pool; // by wtxid
    // independent observation of tips (synchronous kernel notification), since the last check
    std::vector<uint256> announced;
    // harness knowledge
    std::map<uint256, CTransactionRef> known_txs; // by wtxid: everything the harness ever built
    std::vector<uint256> invalidated;
    int funding_height{105};
    // accounting
    int reorgs{0}, max_depth{0}, removed{0}, removed_for_block{0}, readded{0}, replaced{0}, conflicts{0}, detours{0}, ops{0}, added{0};

    bool Spendable(const CScript& spk) const
    {
        if (spk == P2WSH_OP_TRUE) return true;
        for (size_t k = 0; k < 8; ++k) {
            if (spk == sim.keys.Script(SpkType::P2WPKH, k) || spk == sim.keys.Script(SpkType::P2TR, k) || spk == sim.keys.Script(SpkType::P2PKH, k)) return true;
        }
        return false;
    }
    CScript OutScript()
    {
        SpkType t = s.pick<SpkType>({SpkType::P2WPKH, SpkType::ANYONE_P2WSH, SpkType::P2TR, SpkType::P2PKH});
        return sim.keys.Script(t, s.index(8));
    }
    std::vector<CTransactionRef> PoolTxs() // topological (mining order)
    {
        std::vector<CTransactionRef> v;
        for (auto& info : sim.mempool().infoAll()) v.push_back(info.tx);
        return v;
    }
    void Remember(const CTransactionRef& tx) { known_txs[tx->GetWitnessHash().ToUint256()] = tx; }

    /** drain the callback queue, replay, compare with the node */
    void Check(const char* where)
    {
        sim.SyncSignals();
        std::vector<uint256> passed{replay_tip};
        int disconnects_in_row = 0, depth = 0;
        bool connected_after_disconnect = false;
        for (Ev& e : rec->Drain()) {
            st.steps++;
            switch (e.kind) {
            case Ev::DISCONNECT: {
                uint256 h = e.block->GetHash();
                VCHECK(h == replay_tip, "c63.replay-order", where, "BlockDisconnected", h.ToString(), "but the replayed tip is", replay_tip.ToString());
                VCHECK(e.index_hash == h && e.index_prev == e.block->hashPrevBlock, "c63.block-bytes", where, "BlockDisconnected: index does not describe the block", h.ToString());
                auto it = sim.block_store.find(h);
                VCHECK(it != sim.block_store.end() && Ser(*it->second) == Ser(*e.block), "c63.block-bytes", where, "disconnected block differs from the delivered block", h.ToString());
                replay_tip = e.block->hashPrevBlock;
                passed.push_back(replay_tip);
                disconnects_in_row++;
                depth = std::max(depth, disconnects_in_row);
                break;
            }
            case Ev::CONNECT: {
                uint256 h = e.block->GetHash();
                VCHECK(e.block->hashPrevBlock == replay_tip, "c63.replay-order", where, "BlockConnected", h.ToString(), "builds on", e.block->hashPrevBlock.ToString(),
                       "but the replayed tip is", replay_tip.ToString());
                VCHECK(e.index_hash == h && e.index_prev == e.block->hashPrevBlock && e.index_height == sim.ledger.At(h).height, "c63.block-bytes", where,
                       "BlockConnected: index does not describe the block", h.ToString());
                auto it = sim.block_store.find(h);
                VCHECK(it != sim.block_store.end() && Ser(*it->second) == Ser(*e.block), "c63.block-bytes", where, "connected block differs from the delivered block", h.ToString());
                replay_tip = h;
                passed.push_back(replay_tip);
                if (disconnects_in_row) connected_after_disconnect = true;
                disconnects_in_row = 0;
                break;
            }
            case Ev::UPDATED_TIP:
                VCHECK(e.index_hash == replay_tip, "c63.updated-tip", where, "UpdatedBlockTip", e.index_hash.ToString(), "arrived while the replayed tip is", replay_tip.ToString());
                if (!e.index_prev.IsNull()) {
                    VCHECK(sim.ledger.Known(e.index_prev) && sim.ledger.IsAncestor(e.index_prev, e.index_hash), "c63.updated-tip", where, "fork point is not an ancestor of the new tip");
                }
                break;
            case Ev::ADDED: {
                uint256 w = e.tx->GetWitnessHash().ToUint256();
                VCHECK(!replay_pool.count(w), "c63.added-twice", where, "TransactionAddedToMempool for a transaction already reported and not removed", w.ToString());
                auto it = known_txs.find(w);
                VCHECK(it != known_txs.end() && Ser(*it->second) == Ser(*e.tx), "c63.tx-bytes", where, "added transaction is not one the harness made", w.ToString());
                replay_pool[w] = e.tx;
                added++;
                break;
            }
            case Ev::REMOVED:
            case Ev::REMOVED_FOR_BLOCK: {
                uint256 w = e.tx->GetWitnessHash().ToUint256();
                auto it = replay_pool.find(w);
                VCHECK(it != replay_pool.end(), "c63.removed-before-added", where, e.kind == Ev::REMOVED ? "TransactionRemovedFromMempool" : "MempoolTransactionsRemovedForBlock",
                       "for a transaction not reported added (or already removed)", w.ToString(), "reason", e.reason);
                VCHECK(Ser(*it->second) == Ser(*e.tx), "c63.tx-bytes", where, "removed transaction differs from the added one", w.ToString());
                replay_pool.erase(it);
                if (e.kind == Ev::REMOVED) {
                    removed++;
                    if (e.reason == int(MemPoolRemovalReason::REPLACED)) replaced++;
                    if (e.reason == int(MemPoolRemovalReason::CONFLICT)) conflicts++;
                } else {
                    removed_for_block++;
                    VCHECK(sim.ledger.Known(e.block_hash), "c63.block-bytes", where, "removed-for-block names an unknown block");
                }
                break;
            }
            }
        }
        if (connected_after_disconnect) { reorgs++; max_depth = std::max(max_depth, depth); }
        // the node's actual state
        uint256 actual_tip = sim.TipHash();
        st.steps++;
        VCHECK(actual_tip == replay_tip, "c63.replay-tip", where, "replaying the notifications ends at", replay_tip.ToString(), "but the active tip is", actual_tip.ToString());
        // tips the node announced itself while it held its locks: a subsequence of the replayed tips
        size_t pi = 0;
        for (const uint256& a : announced) {
            while (pi < passed.size() && passed[pi] != a) ++pi;
            st.steps++;
            VCHECK(pi < passed.size(), "c63.tip-sequence", where, "the node announced tip", a.ToString(), "which the replayed notifications do not pass through (in order)");
        }
        announced.clear();
        std::set<uint256> actual_pool;
        for (auto& info : sim.mempool().infoAll()) actual_pool.insert(info.tx->GetWitnessHash().ToUint256());
        std::set<uint256> rp;
        for (auto& [w, t] : replay_pool) rp.insert(w);
        st.steps++;
        if (rp != actual_pool) {
            std::string d;
            for (auto& w : rp) if (!actual_pool.count(w)) d += " reported-but-absent:" + w.ToString().substr(0, 12);
            for (auto& w : actual_pool) if (!rp.count(w)) d += " present-but-unreported:" + w.ToString().substr(0, 12);
            VCHECK(false, "c63.replay-pool", where, "replayed pool differs from the real pool:", d);
        }
    }

    // ---- operations
    struct Cand { COutPoint op; CAmount value; CScript spk; bool unconfirmed; };

    void OpSubmit()
    {
        RefReplay r = sim.ledger.Replay(sim.TipHash());
        int next_height = sim.ledger.At(sim.TipHash()).height + 1;
        auto pool = PoolTxs();
        std::map<COutPoint, CTransactionRef> spent_by;
        for (auto& t : pool) for (auto& in : t->vin) spent_by[in.prevout] = t;
        std::vector<Cand> free_c, taken_c;
        for (auto& [op, c] : r.utxo) {
            if (c.coinbase && next_height - c.height < 100) continue;
            if (!Spendable(c.spk) || c.value < 20000) continue;
            (spent_by.count(op) ? taken_c : free_c).push_back(Cand{op, c.value, c.spk, false});
        }
        for (auto& t : pool) for (uint32_t o = 0; o < t->vout.size(); ++o) {
            COutPoint op(t->GetHash(), o);
            if (!Spendable(t->vout[o].scriptPubKey) || t->vout[o].nValue < 20000) continue;
            if (!spent_by.count(op)) free_c.push_back(Cand{op, t->vout[o].nValue, t->vout[o].scriptPubKey, true});
        }
        bool rbf = !taken_c.empty() && s.chance(56);
        std::vector<Cand> ins;
        if (rbf) ins.push_back(taken_c[s.index(taken_c.size())]);
        unsigned want = s.range<unsigned>(rbf ? 0 : 1, 2);
        // prefer the most recently created candidates (unconfirmed chains) half of the time
        for (unsigned k = 0; k < want && !free_c.empty(); ++k) {
            size_t j = s.chance(128) ? free_c.size() - 1 - s.index(std::min<size_t>(free_c.size(), 3)) : s.index(free_c.size());
            ins.push_back(free_c[j]);
            free_c.erase(free_c.begin() + j);
        }
        if (ins.empty()) return;
        CAmount total = 0;
        std::vector<std::pair<COutPoint, RefCoin>> coins;
        for (auto& c : ins) { total += c.value; coins.emplace_back(c.op, RefCoin{c.value, c.spk, 0, false}); }
        CAmount fee = rbf ? 60000 + CAmount(s.range<unsigned>(0, 9)) * 10000 : 1500 + CAmount(s.range<unsigned>(0, 7)) * 500;
        if (total <= fee + 2000) return;
        unsigned nout = s.range<unsigned>(1, 2);
        std::vector<CTxOut> outs;
        CAmount rest = total - fee;
        for (unsigned k = 0; k < nout; ++k) {
            CAmount v = (k + 1 == nout) ? rest : rest / 2;
            rest -= v;
            outs.emplace_back(v, OutScript());
        }
        CTransactionRef tx = MakeTransactionRef(sim.MakeTx(coins, outs, 0, 0xfffffffd));
        Remember(tx);
        MempoolAcceptResult res = WITH_LOCK(cs_main, return sim.chainman().ProcessTransaction(tx));
        bool ok = res.m_result_type == MempoolAcceptResult::ResultType::VALID;
        st.cls(ok ? (rbf ? "submit-replacement-accepted" : "submit-accepted") : "submit-rejected");
        st.mix(uint64_t(10 + rbf * 2 + ok));
        st.note("submit ", tx->GetHash().ToString().substr(0, 8), rbf ? " (conflicts with pool)" : "", ok ? " ok" : " rejected: " + res.m_state.GetRejectReason());
        Check("submit");
    }

    /** txs (in the given order) that the model's UTXO rules allow on top of `utxo` at `height`; updates utxo */
    std::vector<CTransactionRef> Filter(const std::vector<CTransactionRef>& cands, RefUtxo& utxo, int height)
    {
        std::vector<CTransactionRef> out;
        for (auto& t : cands) {
            bool ok = true;
            std::set<COutPoint> seen;
            for (auto& in : t->vin) {
                auto it = utxo.find(in.prevout);
                if (it == utxo.end() || !seen.insert(in.prevout).second || (it->second.coinbase && height - it->second.height < 100)) { ok = false; break; }
            }
            if (!ok) continue;
            for (auto& in : t->vin) utxo.erase(in.prevout);
            for (uint32_t o = 0; o < t->vout.size(); ++o) utxo[COutPoint(t->GetHash(), o)] = RefCoin{t->vout[o].nValue, t->vout[o].scriptPubKey, height, false};
            out.push_back(t);
        }
        return out;
    }

    void OpMine()
    {
        uint256 tip = sim.TipHash();
        int height = sim.ledger.At(tip).height + 1;
        auto pool = PoolTxs();
        std::vector<CTransactionRef> cands;
        for (auto& t : pool) if (s.chance(150)) cands.push_back(t);
        // a non-pool transaction that conflicts with a pool transaction left out of the block
        std::set<Txid> in_block;
        for (auto& t : cands) in_block.insert(t->GetHash());
        bool with_conflict = false;
        if (s.chance(70)) {
            RefReplay r = sim.ledger.Replay(tip);
            for (auto& t : pool) {
                if (in_block.count(t->GetHash())) continue;
                bool parent_in_pool = false;
                for (auto& in : t->vin) if (!r.utxo.count(in.prevout)) parent_in_pool = true;
                if (parent_in_pool) continue;
                const RefCoin& c = r.utxo.at(t->vin[0].prevout);
                if (!Spendable(c.spk) || c.value < 5000 || (c.coinbase && height - c.height < 100)) continue;
                CTransactionRef x = MakeTransactionRef(sim.MakeTx({{t->vin[0].prevout, c}}, {CTxOut(c.value - 1000, OutScript())}));
                Remember(x);
                cands.push_back(x);
                with_conflict = true;
                break;
            }
        }
        RefUtxo u = sim.ledger.Replay(tip).utxo;
        BlockSpec spec;
        spec.prev = tip;
        spec.txs = Filter(cands, u, height);
        spec.extra_nonce = 1000 + ops;
        auto blk = sim.Build(spec);
        auto d = sim.Deliver(blk);
        st.cls("mine");
        if (with_conflict) st.cls("mine-with-conflicting-tx");
        st.mix(uint64_t(20 + std::min<size_t>(spec.txs.size(), 6)));
        st.note("mine h=", height, " txs=", spec.txs.size(), with_conflict ? " +conflict" : "", sim.TipHash() == blk->GetHash() ? "" : " NOT CONNECTED");
        Check("mine");
    }

    void OpBranch(bool bad_last)
    {
        uint256 tip = sim.TipHash();
        int th = sim.ledger.At(tip).height;
        int depth = s.range<int>(1, 3);
        depth = std::min(depth, th - funding_height);
        if (depth < 1) return;
        uint256 parent = sim.ledger.AncestorAt(tip, th - depth);
        // candidates: transactions of the blocks about to be disconnected (re-mined on the new branch) and pool transactions
        std::vector<CTransactionRef> cands;
        for (auto& h : sim.ledger.Path(tip)) {
            const RefBlock& b = sim.ledger.At(h);
            if (b.height > th - depth) for (size_t i = 1; i < b.vtx.size(); ++i) if (s.chance(128)) cands.push_back(b.vtx[i]);
        }
        for (auto& t : PoolTxs()) if (s.chance(60)) cands.push_back(t);
        RefUtxo u = sim.ledger.Replay(parent).utxo;
        uint256 prev = parent;
        for (int i = 0; i <= depth; ++i) {
            BlockSpec spec;
            spec.prev = prev;
            int height = th - depth + 1 + i;
            if (i == 0 || s.chance(64)) { spec.txs = Filter(cands, u, height); cands.clear(); }
            spec.extra_nonce = 2000 + ops * 8 + i;
            if (bad_last && i == depth) spec.coinbase_value = RefLedger::Subsidy(height, sim.ledger.halving_interval) + 100000000; // pays itself 1 BTC too much
            auto blk = sim.Build(spec);
            sim.Deliver(blk);
            prev = blk->GetHash();
        }
        st.cls(bad_last ? "branch-with-invalid-last-block" : "overtaking-branch");
        if (bad_last) detours++;
        st.mix(uint64_t(30 + depth + (bad_last ? 8 : 0)));
        st.note(bad_last ? "bad-branch" : "branch", " depth=", depth, " -> tip ", sim.TipHash() == prev ? "switched" : "kept");
        Check(bad_last ? "bad-branch" : "branch");
    }

    void OpInvalidate()
    {
        uint256 tip = sim.TipHash();
        int th = sim.ledger.At(tip).height;
        int depth = std::min(s.range<int>(1, 2), th - funding_height);
        if (depth < 1) return;
        uint256 target = sim.ledger.AncestorAt(tip, th - depth + 1);
        CBlockIndex* pi = WITH_LOCK(cs_main, return sim.chainman().m_blockman.LookupBlockIndex(target));
        BlockValidationState state;
        sim.chainstate().InvalidateBlock(state, pi);
        sim.chainstate().ActivateBestChain(state);
        invalidated.push_back(target);
        st.cls("invalidate");
        st.mix(uint64_t(40 + depth));
        st.note("invalidate depth=", depth);
        Check("invalidate");
    }

    void OpReconsider()
    {
        if (invalidated.empty()) return;
        {
            LOCK(cs_main);
            for (auto& h : invalidated) sim.chainstate().ResetBlockFailureFlags(sim.chainman().m_blockman.LookupBlockIndex(h));
            sim.chainman().RecalculateBestHeader();
        }
        invalidated.clear();
        BlockValidationState state;
        sim.chainstate().ActivateBestChain(state);
        st.cls("reconsider");
        st.mix(uint64_t(50));
        st.note("reconsider");
        Check("reconsider");
    }
};

void Body(Src& s, Stats& st, bool tsan_variant)
{
    SetMockTime(0);
    const int64_t genesis_time = 1296688602;
    SetMockTime(genesis_time + 3600); // the tip is recent: the node leaves IBD (mempool-removed-for-block notifications are suppressed in IBD)
    // -- schedule / configuration first
    ChainSimOpts o;
    o.immediate_signals = s.chance(40); // mostly the production path: scheduler thread + SerialTaskRunner
    o.worker_threads = s.pick<int>({0, 2, 3});
    o.prevout_threads = s.pick<int>({0, 2, 4});
    o.min_validation_cache = tsan_variant;
    const uint64_t sched_seed = s.range<uint64_t>(0, UINT64_MAX);
    const unsigned intensity = s.pick<unsigned>({48, 0, 12, 160});
    unsigned nops = s.range<unsigned>(4, tsan_variant ? 16 : 30);
    {
        auto simp = std::make_unique<ChainSim>(o);
        ChainSim& sim = *simp;
        auto base = sim.LoadBase(104);
        // funding block: coinbase 1 fanned out into 14 spendable outputs
        {
            const auto& b1 = sim.block_store.at(base[0]);
            std::vector<CTxOut> outs;
            CAmount each = b1->vtx[0]->vout[0].nValue / 14;
            for (int k = 0; k < 14; ++k) outs.emplace_back(each, sim.keys.Script(k % 3 == 0 ? SpkType::ANYONE_P2WSH : (k % 3 == 1 ? SpkType::P2WPKH : SpkType::P2TR), k % 8));
            CTransactionRef f = MakeTransactionRef(sim.MakeTx({{COutPoint(b1->vtx[0]->GetHash(), 0), RefCoin{b1->vtx[0]->vout[0].nValue, b1->vtx[0]->vout[0].scriptPubKey, 1, true}}}, outs));
            BlockSpec spec;
            spec.prev = base.back();
            spec.txs = {f};
            auto blk = sim.Build(spec);
            auto d = sim.Deliver(blk);
            VCHECK(d.processed && sim.TipHash() == blk->GetHash(), "c63.generator-funding", "funding block not connected", d.verdict ? StateStr(*d.verdict) : "");
        }
        VCHECK(!sim.chainman().IsInitialBlockDownload(), "c63.generator-ibd", "node still in IBD: removed-for-block notifications would be suppressed");
        sim.SyncSignals();
        World w{sim, s, st, std::make_shared<Recorder>()};
        w.replay_tip = sim.TipHash();
        for (auto& [h, b] : sim.block_store) for (auto& t : b->vtx) w.Remember(t);
        btcsignals::scoped_connection tip_conn{uiInterface.NotifyBlockTip.connect([&w](SynchronizationState, const CBlockIndex& index, double) { w.announced.push_back(index.GetBlockHash()); })};
        sim.m_node.validation_signals->RegisterSharedValidationInterface(w.rec);
        sched::Arm(sched_seed, intensity);
        for (unsigned i = 0; i < nops && !s.exhausted(); ++i) {
            w.ops++;
            sched::Point("op");
            unsigned k = s.range<unsigned>(0, 15);
            if (k <= 5) w.OpSubmit();
            else if (k <= 8) w.OpMine();
            else if (k <= 11) w.OpBranch(false);
            else if (k == 12) w.OpBranch(true);
            else if (k <= 14) w.OpInvalidate();
            else w.OpReconsider();
        }
        w.Check("end");
        sched::Disarm();
        tip_conn.disconnect();
        sim.m_node.validation_signals->UnregisterSharedValidationInterface(w.rec);
        sim.SyncSignals();

        st.cls(o.immediate_signals ? "immediate-runner" : "scheduler-thread");
        if (o.worker_threads || o.prevout_threads) st.cls("validation-threads");
        if (w.reorgs) st.cls("reorg");
        if (w.max_depth >= 2) st.cls("reorg-depth>=2");
        if (w.detours) st.cls("bad-branch-detour");
        if (w.removed) st.cls("tx-removed");
        if (w.replaced) st.cls("tx-replaced");
        if (w.conflicts) st.cls("tx-conflict-removed");
        if (w.removed_for_block) st.cls("tx-removed-for-block");
        if (w.added) st.cls("tx-added");
        st.mix(uint64_t(o.immediate_signals)); st.mix(uint64_t(w.reorgs)); st.mix(uint64_t(w.max_depth)); st.mix(uint64_t(std::min(w.removed, 8)));
        st.note("reorgs=", w.reorgs, " maxdepth=", w.max_depth, " added=", w.added, " removed=", w.removed, " removed-for-block=", w.removed_for_block, " replaced=", w.replaced,
                " conflicts=", w.conflicts, " yields=", sched::Taken(), o.immediate_signals ? " immediate" : " scheduler-thread");
        // non-trivial: callbacks delivered on the scheduler thread, a reorg of depth >= 2 replayed, and mempool churn (an addition and a removal) reported
        st.nontrivial = !o.immediate_signals && w.max_depth >= 2 && w.added >= 1 && (w.removed + w.removed_for_block) >= 1;
    }
    SetMockTime(0);
}

} // namespace

#define C63_RULE                                                                                                                                        \
    "histories of 4..30 ops on a regtest node (104-block base + funding block, out of IBD) with the production notification path (scheduler thread + " \
    "SerialTaskRunner; 1/6 synchronous), optional script-check / prevout threads and seeded yields in the callbacks: submit tx (chains of "          \
    "unconfirmed, replacements), mine pool subsets (+ a conflicting non-pool tx), overtaking branch of depth 1..3 re-mining disconnected txs, "       \
    "branch with an invalid last block (switch over and back), InvalidateBlock, reconsider; after every op the recorded callbacks are replayed "      \
    "and compared with the active tip, the tips the node announced synchronously, the real pool and the delivered bytes. non-trivial = scheduler-"  \
    "thread delivery, a replayed reorg of depth >= 2, >= 1 addition and >= 1 removal reported; distinct = op sequence with parameters + reorg/removal counts"

VERIF_TARGET(c63_signals, nullptr, 48, 420, C63_RULE) { Body(s, st, false); }
VERIF_TARGET(c63_signals_tsan, nullptr, 48, 300, C63_RULE) { Body(s, st, true); }
