// C27 — Mempool resource and topology limits always hold.
// Histories on MempoolSim with small limits (pool of 200 kB / 1 MB / default, cluster count 2..64, cluster size 5..101 kvB, standardness
// enforced). Every submission (single transaction or package) is bracketed by the oracle, which recomputes from the pool's transaction list:
//   usage        DynamicMemoryUsage() <= configured maximum                                      (after every submission)
//   cluster      every cluster (own union-find over spends) has <= limit transactions and <= 4*limit_vbytes of (sigop-adjusted) weight
//   minfee       if the submission evicted for space (removal notifications with reason SIZELIMIT): GetMinFee() > aggregate feerate of
//                the evicted set (a weighted mean of the evicted chunks' feerates, hence <= the highest evicted chunk feerate)
//   truc         (histories without any block disconnection) every v3 tx: <= 1 in-pool parent, <= 1 in-pool child, those are v3,
//                vsize <= 10 000, and <= 1000 if it has an in-pool parent
//   dust-fee     a tx accepted by this submission that has a dust output (own threshold formula): exactly one dust output, base fee
//                (own in - out) == 0 and modified fee == 0
//   dust-spend   a tx accepted by this submission (not reorg handling) spends every dust output of each of its unconfirmed parents
// None of the repo's Check*Invariants helpers is used.
#include <engine/verif.h>
#include <kits/mempoolhist.h>

#include <set>

using namespace verif;

namespace {

struct Limits {
    int64_t max_bytes;
    unsigned cluster_count;
    int64_t cluster_vbytes;
};

struct LimitOracle {
    MempoolSim& ms;
    Stats& st;
    Limits lim;
    bool ever_disconnected{false};
    bool saw_eviction{false}, saw_truc_pair{false}, saw_dust_spend{false};
    size_t ev_mark{0};
    std::map<Txid, CTransactionRef> pkg_txs; //!< transactions of the submission being bracketed

    void Before(const GenTx& g)
    {
        ev_mark = ms.EventCount();
        pkg_txs.clear();
        if (g.package.empty()) pkg_txs[g.tx->GetHash()] = g.tx;
        for (const auto& t : g.package) pkg_txs[t->GetHash()] = t;
    }

    std::optional<CTxOut> CoinOf(const COutPoint& op, const PoolSnap& after, const PoolSnap& before)
    {
        for (const PoolSnap* sn : {&after, &before}) {
            auto e = sn->entries.find(op.hash);
            if (e != sn->entries.end() && op.n < e->second.tx->vout.size()) return e->second.tx->vout[op.n];
        }
        auto p = pkg_txs.find(op.hash);
        if (p != pkg_txs.end() && op.n < p->second->vout.size()) return p->second->vout[op.n];
        auto u = ms.ChainUtxo().find(op);
        if (u != ms.ChainUtxo().end()) return CTxOut(u->second.value, u->second.spk);
        return std::nullopt;
    }

    /** usage_now / minfee_now are read immediately after the submission returned, before any other pool query (graph queries may allocate lazily) */
    void After(const char* what, const PoolSnap& before, size_t usage_now, CAmount minfee_now)
    {
        const PoolSnap after = ms.Snapshot();
        st.steps++;
        // ---- what this submission added / evicted
        std::vector<CTransactionRef> added, evicted;
        for (size_t i = ev_mark; i < ms.Events().size(); ++i) {
            const PoolEvent& e = ms.Events()[i];
            if (e.kind == PoolEvent::ADDED) added.push_back(e.tx);
            if (e.kind == PoolEvent::REMOVED && e.reason == MemPoolRemovalReason::SIZELIMIT) evicted.push_back(e.tx);
        }
        const ModelPool m = ModelPool::From(after.Txs());
        auto adj_weight = [&](const Txid& t) {
            const CTransaction& tx = *m.txs.at(t);
            const int64_t w = int64_t(::GetSerializeSize(TX_NO_WITNESS(tx))) * 3 + int64_t(::GetSerializeSize(TX_WITH_WITNESS(tx)));
            const int64_t so = ModelSigOpCost(tx, [&](const COutPoint& op) -> std::optional<CScript> { auto c = CoinOf(op, after, before); if (c) return c->scriptPubKey; return std::nullopt; });
            return std::max<int64_t>(w, so * 20);
        };
        if (!added.empty()) {
            // ---- usage (the statement speaks about the state after an ACCEPTANCE; e.g. PrioritiseTransaction alone may grow the usage without trimming)
            VCHECK(int64_t(usage_now) <= lim.max_bytes, "c27.usage", what, "DynamicMemoryUsage", usage_now, "exceeds the configured maximum", lim.max_bytes, "pool", after.entries.size());
            if (int64_t(usage_now) * 10 >= lim.max_bytes * 9) st.cls("usage>=90%");
            // ---- clusters (own union-find)
            size_t biggest = 0;
            for (const auto& comp : m.Clusters()) {
                int64_t w = 0;
                for (const auto& t : comp) w += adj_weight(t);
                biggest = std::max(biggest, comp.size());
                VCHECK(comp.size() <= lim.cluster_count, "c27.cluster-count", what, "cluster of", comp.size(), "transactions, limit", lim.cluster_count);
                VCHECK(w <= lim.cluster_vbytes * 4, "c27.cluster-size", what, "cluster weight", w, "exceeds 4 x", lim.cluster_vbytes);
            }
            if (biggest == lim.cluster_count) st.cls("cluster-at-count-limit");
        }
        if (!evicted.empty()) {
            // aggregate feerate of the evicted set, from the snapshot before (modified fees) or, for txs added by this very submission, from own fee computation + delta
            __int128 fee = 0;
            int64_t vsize = 0;
            bool known = true;
            for (const auto& t : evicted) {
                auto b = before.entries.find(t->GetHash());
                if (b != before.entries.end()) { fee += b->second.modified_fee; vsize += b->second.vsize; continue; }
                __int128 in = 0, out = 0;
                for (const auto& i : t->vin) { auto c = CoinOf(i.prevout, after, before); if (!c) { known = false; break; } in += c->nValue; }
                for (const auto& o : t->vout) out += o.nValue;
                auto d = before.deltas.find(t->GetHash());
                fee += in - out + (d != before.deltas.end() ? d->second : 0);
                const int64_t w = int64_t(::GetSerializeSize(TX_NO_WITNESS(*t))) * 3 + int64_t(::GetSerializeSize(TX_WITH_WITNESS(*t)));
                vsize += (w + 3) / 4;
            }
            saw_eviction = true;
            st.cls("eviction-for-space");
            if (known && vsize > 0) {
                // GetMinFee (sat/kvB) must be strictly above fee/vsize
                VCHECK(__int128(minfee_now) * vsize > fee * 1000, "c27.minfee", what, "after evicting", evicted.size(), "txs with aggregate fee", int64_t(fee), "vsize", vsize,
                       "GetMinFee is only", minfee_now, "sat/kvB");
            }
        }
        // ---- TRUC topology (only in histories without block disconnections)
        if (!ever_disconnected) {
            for (const auto& [id, tx] : m.txs) {
                if (tx->version != 3) continue;
                const auto& par = m.parents.at(id);
                const auto& chi = m.children.at(id);
                VCHECK(par.size() <= 1, "c27.truc", what, "v3 tx", id.ToString(), "has", par.size(), "unconfirmed parents");
                VCHECK(chi.size() <= 1, "c27.truc", what, "v3 tx", id.ToString(), "has", chi.size(), "unconfirmed children");
                for (const auto& p : par) VCHECK(m.txs.at(p)->version == 3, "c27.truc", what, "v3 tx", id.ToString(), "has a non-v3 unconfirmed parent");
                for (const auto& c : chi) VCHECK(m.txs.at(c)->version == 3, "c27.truc", what, "v3 tx", id.ToString(), "has a non-v3 unconfirmed child");
                const int64_t vs = (adj_weight(id) + 3) / 4;
                VCHECK(vs <= 10000, "c27.truc", what, "v3 tx", id.ToString(), "vsize", vs, "> 10000");
                if (!par.empty()) {
                    VCHECK(vs <= 1000, "c27.truc", what, "v3 child", id.ToString(), "vsize", vs, "> 1000");
                    saw_truc_pair = true;
                }
            }
        }
        // ---- ephemeral dust, for the transactions accepted by this submission
        for (const auto& tx : added) {
            const Txid id = tx->GetHash();
            unsigned ndust = 0;
            for (const auto& o : tx->vout) if (ModelIsDust(o)) ndust++;
            if (ndust > 0) {
                __int128 in = 0, out = 0;
                bool known = true;
                for (const auto& i : tx->vin) { auto c = CoinOf(i.prevout, after, before); if (!c) { known = false; break; } in += c->nValue; }
                for (const auto& o : tx->vout) out += o.nValue;
                VCHECK(ndust == 1, "c27.dust-fee", what, "accepted tx", id.ToString(), "has", ndust, "dust outputs");
                if (known) VCHECK(in - out == 0, "c27.dust-fee", what, "accepted tx with dust", id.ToString(), "pays base fee", int64_t(in - out));
                auto d = before.deltas.find(id);
                const CAmount delta = d != before.deltas.end() ? d->second : 0;
                if (known) VCHECK(in - out + delta == 0, "c27.dust-fee", what, "accepted tx with dust", id.ToString(), "has modified fee", int64_t(in - out + delta));
                auto e = after.entries.find(id);
                if (e != after.entries.end()) VCHECK(e->second.fee == 0 && e->second.modified_fee == 0, "c27.dust-fee", what, "accepted tx with dust", id.ToString(), "entry fee", e->second.fee, "modified", e->second.modified_fee);
                st.cls("dusty-tx-accepted");
            }
            // parents that are unconfirmed (in the pool before/after this submission, or accepted in the same package)
            std::set<Txid> parents;
            for (const auto& i : tx->vin) {
                if (after.entries.count(i.prevout.hash) || before.entries.count(i.prevout.hash)) parents.insert(i.prevout.hash);
                for (const auto& a : added) if (a->GetHash() == i.prevout.hash) parents.insert(i.prevout.hash);
            }
            for (const auto& p : parents) {
                CTransactionRef ptx;
                if (auto e = after.entries.find(p); e != after.entries.end()) ptx = e->second.tx;
                else if (auto e2 = before.entries.find(p); e2 != before.entries.end()) ptx = e2->second.tx;
                else ptx = pkg_txs.at(p);
                for (uint32_t n = 0; n < ptx->vout.size(); ++n) {
                    if (!ModelIsDust(ptx->vout[n])) continue;
                    bool spends = false;
                    for (const auto& i : tx->vin) if (i.prevout == COutPoint(p, n)) spends = true;
                    VCHECK(spends, "c27.dust-spend", what, "accepted tx", id.ToString(), "spends from unconfirmed parent", p.ToString(), "without spending its dust output", n);
                    saw_dust_spend = true;
                    st.cls("dust-spent-by-child");
                }
            }
        }
    }
};

} // namespace

VERIF_TARGET(c27_limits, nullptr, 160, 2200,
             "mempool histories (kits/mempoolhist; 2/3 without any block disconnection) under small limits: pool of 200 kB (cluster size 5 kvB) / 1 MB (25 kvB) / default, cluster count "
             "2,3,5,9,24,64, standardness enforced; besides the shared ops: filler bursts of padded transactions at random feerates until the pool overflows, TRUC family bursts "
             "(parent, child at the 1000 vB cap, sibling, mixed versions), dusty packages with PrioritiseTransaction applied before submission (base fee != 0 but modified 0 and vice "
             "versa). Every submission is bracketed: usage <= max, clusters within count/size, min fee above the evicted feerate, TRUC topology/caps, dust rules. non-trivial = an "
             "eviction for space happened, or a TRUC parent-child pair was in the pool, or a dust output was spent by an accepted child; distinct = history shape + cfg + burst kinds")
{
    MempoolSimOpts o;
    o.with_mempool_checks = false; // CTxMemPool::check() after every ATMP is C22's extra monitor; here it would only cost time (O(pool) + 256 KiB cache per call)
    Limits lim{300'000'000, 64, 101'000};
    static const char* const kCount[] = {"-limitclustercount=64", "-limitclustercount=2", "-limitclustercount=3", "-limitclustercount=5", "-limitclustercount=9", "-limitclustercount=24"};
    static const unsigned kCountV[] = {64, 2, 3, 5, 9, 24};
    const unsigned cc = s.range<unsigned>(0, 5);
    o.extra_args.push_back(kCount[cc]);
    lim.cluster_count = kCountV[cc];
    const unsigned size_cfg = s.range<unsigned>(0, 2);
    if (size_cfg == 0) {
        o.tweak_mempool = [](CTxMemPool::Options& mo) { mo.max_size_bytes = 200'000; mo.limits.cluster_size_vbytes = 5'000; };
        lim.max_bytes = 200'000; lim.cluster_vbytes = 5'000;
        st.cls("cfg-200kB");
    } else if (size_cfg == 1) {
        o.extra_args.push_back("-maxmempool=1"); o.extra_args.push_back("-limitclustersize=25");
        lim.max_bytes = 1'000'000; lim.cluster_vbytes = 25'000;
        st.cls("cfg-1MB");
    } else {
        st.cls("cfg-default-size");
    }
    const bool no_disconnect = s.range<unsigned>(0, 2) != 2;
    MempoolSim ms(o);
    VCHECK(ms.pool().m_opts.max_size_bytes == lim.max_bytes && ms.pool().m_opts.limits.cluster_count == lim.cluster_count &&
           ms.pool().m_opts.limits.cluster_size_vbytes == lim.cluster_vbytes && ms.pool().m_opts.require_standard, "c27.harness-config", "configured limits are not what the harness assumes");
    st.mix(uint64_t(cc * 8 + size_cfg * 2 + no_disconnect));
    Note(st, "cfg ", kCount[cc], " size_cfg=", size_cfg, " no_disconnect=", no_disconnect);

    LimitOracle oracle{ms, st, lim};
    HistoryHooks hooks;
    hooks.prefix = "c27";
    hooks.allow_disconnect = !no_disconnect;
    // (the driver and the ops below Sync() after every pool-changing step, so LastSnap() is the state right before the submission)
    hooks.submit_tx = [&](const GenTx& g) {
        const PoolSnap before = ms.LastSnap();
        oracle.Before(g);
        MempoolAcceptResult r = ms.Submit(g.tx);
        const size_t usage_now = ms.pool().DynamicMemoryUsage();
        const CAmount minfee_now = ms.pool().GetMinFee().GetFeePerK();
        oracle.After("tx", before, usage_now, minfee_now);
        return r;
    };
    hooks.submit_pkg = [&](const GenTx& g) {
        const PoolSnap before = ms.LastSnap();
        oracle.Before(g);
        PackageMempoolAcceptResult r = ms.SubmitPackage(g.package);
        const size_t usage_now = ms.pool().DynamicMemoryUsage();
        const CAmount minfee_now = ms.pool().GetMinFee().GetFeePerK();
        oracle.After("package", before, usage_now, minfee_now);
        return r;
    };
    MempoolHistory h(ms, s, st, hooks);
    // extra coins for filler bursts: one block with a 90-output fan-out of a funding output
    {
        auto sp = ms.Spendables();
        for (const auto& x : sp) {
            if (x.unconfirmed || x.coin.coinbase || x.coin.spk != ms.sim().keys.Script(SpkType::ANYONE_P2WSH)) continue;
            TxPlan plan;
            plan.inputs = {x};
            plan.fee = 20000;
            for (int i = 0; i < 90; ++i) plan.change_scripts.push_back(ms.sim().keys.Script(SpkType::ANYONE_P2WSH));
            ms.MineTxs({ms.Build(plan)});
            break;
        }
    }
    h.WarmUp(2);
    const unsigned nops = s.range<unsigned>(6, 40);
    for (unsigned op = 0; op < nops && !s.exhausted(); ++op) {
        const unsigned kind = s.range<unsigned>(0, 9);
        if (h.blocks_disconnected > 0) oracle.ever_disconnected = true;
        if (kind <= 5) {
            if (!h.Step()) break;
        } else if (kind == 6 || kind == 7) {
            // filler burst: padded transactions on distinct confirmed coins at random feerates
            const unsigned n = s.range<unsigned>(8, 44);
            const size_t pad = size_cfg == 0 ? s.pick<size_t>({4000, 3000, 4500}) : size_cfg == 1 ? s.pick<size_t>({20000, 12000, 24000}) : s.pick<size_t>({4000, 20000, 60000});
            unsigned ok = 0;
            for (unsigned i = 0; i < n; ++i) {
                auto sp = ms.Spendables();
                TxPlan plan;
                for (const auto& x : sp) {
                    if (x.unconfirmed || x.spent_by || x.coin.coinbase || x.coin.value < 1'000'000) continue;
                    plan.inputs = {x};
                    break;
                }
                if (plan.inputs.empty()) break;
                CScript data;
                data << OP_RETURN << std::vector<unsigned char>(pad, 0x42);
                plan.fixed_outputs.emplace_back(0, data);
                plan.change_scripts = {ms.sim().keys.Script(SpkType::ANYONE_P2WSH)};
                plan.fee = CAmount(pad) * s.range<CAmount>(1, 30);
                GenTx g;
                g.kind = GenKind::BIG;
                g.tx = ms.Build(plan);
                g.fee = plan.fee;
                g.note = strprintf("filler pad=%d", pad);
                if (h.Submit(g)) ok++;
                ms.Sync();
            }
            st.cls("filler-burst");
            st.mix(uint64_t(3000 + n));
            Note(st, "filler burst n=", n, " pad=", pad, " accepted=", ok, " usage=", ms.LastSnap().usage);
        } else if (kind == 8) {
            // TRUC family
            static const GenKind fam[] = {GenKind::TRUC_PARENT, GenKind::TRUC_CHILD, GenKind::TRUC_SIBLING, GenKind::TRUC_MIXED, GenKind::TRUC_CHILD, GenKind::CONFLICT};
            const unsigned n = s.range<unsigned>(2, 5);
            for (unsigned i = 0; i < n; ++i) { h.Submit(ms.GenOfKind(s, i == 0 ? GenKind::TRUC_PARENT : fam[s.index(6)])); ms.Sync(); }
            st.cls("truc-burst");
            st.mix(uint64_t(4000 + n));
        } else {
            // dusty package with prioritisation applied BEFORE submission: base fee f with delta -f (modified 0), or base 0 with delta +d, or plain
            const unsigned mode = s.range<unsigned>(0, 2);
            auto sp = ms.Spendables();
            TxPlan pp;
            for (const auto& x : sp) {
                if (x.unconfirmed || x.spent_by || x.coin.coinbase || x.coin.value < 1'000'000) continue;
                pp.inputs = {x};
                if (!s.chance(64)) break;
            }
            if (!pp.inputs.empty()) {
                const bool anchor = s.boolean();
                const CScript dust_spk = anchor ? P2AScript() : ms.sim().keys.Script(SpkType::ANYONE_P2WSH);
                const CAmount thr = ModelDustThreshold(CTxOut(0, dust_spk));
                pp.version = s.boolean() ? 3 : 2;
                pp.fixed_outputs.emplace_back(s.pick<CAmount>({0, thr - 1, 1}), dust_spk);
                pp.change_scripts = {ms.sim().keys.Script(SpkType::ANYONE_P2WSH)};
                pp.fee = mode == 0 ? s.pick<CAmount>({200, 1, 5000}) : 0;
                const CTransactionRef parent = ms.Build(pp);
                TxPlan cp;
                cp.version = pp.version;
                for (uint32_t n = 0; n < 2; ++n) cp.inputs.push_back(Spendable{COutPoint(parent->GetHash(), n), RefCoin{parent->vout[n].nValue, parent->vout[n].scriptPubKey, -1, false}, true, std::nullopt});
                cp.change_scripts = {ms.sim().keys.Script(SpkType::ANYONE_P2WSH)};
                cp.fee = s.range<CAmount>(800, 6000);
                const CTransactionRef child = ms.Build(cp);
                if (mode == 0) { ms.Prioritise(parent->GetHash(), -pp.fee); st.cls("dust-base-fee-hidden-by-delta"); }
                if (mode == 1) { ms.Prioritise(parent->GetHash(), s.pick<CAmount>({1, 1000, -1})); st.cls("dust-delta-on-zero-fee"); }
                ms.Sync();
                GenTx g;
                g.kind = GenKind::DUSTY_PKG;
                g.package = {parent, child};
                g.tx = child;
                g.fee = cp.fee;
                g.note = strprintf("dusty package mode %d parent fee %d v%d", mode, pp.fee, pp.version);
                h.Submit(g);
                ms.Sync();
            }
            st.cls("dust-with-priority-op");
        }
    }
    ms.Sync();
    if (h.blocks_disconnected > 0) oracle.ever_disconnected = true;
    h.Finish();
    st.nontrivial = oracle.saw_eviction || oracle.saw_truc_pair || oracle.saw_dust_spend;
    if (oracle.saw_truc_pair) st.cls("truc-pair-in-pool");
    if (!oracle.ever_disconnected) st.cls("no-disconnection-history");
}
