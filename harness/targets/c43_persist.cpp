// C43 — Wallet state survives restarts and crashes consistently.
//
//   c43_wallet_persist : in-process histories on an on-disk SQLite descriptor wallet; at every RESTART op the canonical dump of what the
//                        wallet records (descriptors incl. range/next index/script set, keys, transactions with states, address book,
//                        persistently locked coins, flags, master keys) taken before the clean unload must equal the dump after reload
//   c43_workload       : the same interpreter with the production durability under the E3 recorder (bin/crashsim/c43_worker.py); at each op
//                        boundary it stores a RECORD-LEVEL snapshot of the database (side directory) and prints MARK lines
//   c43_recover        : oracle for one crash image: the database opens, every atomic group of the interrupted operation (the database
//                        transactions the statement lists) is entirely as before or entirely as after, and CWallet::LoadExisting succeeds
#include <engine/verif.h>
#include <kits/walletsim.h>
#include <targets/c43_walletlib.h>

#include <test/util/script.h>
#include <util/time.h>
#include <wallet/crypter.h>
#include <wallet/walletdb.h>

#include <chrono>
#include <iostream>

using namespace verif;
using namespace wl;

namespace {

constexpr int64_t GENESIS_TIME = 1296688602;
constexpr CAmount FEE = 3000;
const char* const IMPORT_TPRV = "tprv8ZgxMBicQKsPd1QwsGgzfu2pcPYbBosZhJknqreRHgsWx32nNEhMjGQX2cgFL8n6wz9xdDYwLcs78N4nsCo32cxEX8RBtwGsEGgybLiQJfk";
const SecureString PASS1{"c43 passphrase"}, PASS2{"c43 other passphrase"};
const std::vector<std::string> LABELS{"", "a", "savings", "label with spaces", "\xc3\xa4\xc3\xb6"};

struct PHist {
    Src& s;
    Stats& st;
    const bool crash_mode;
    explicit PHist(Src& s_, Stats& st_, bool crash) : s(s_), st(st_), crash_mode(crash) {}

    int n_reload{0}, n_snap{0}, n_wtx_at_reload{0}, n_ops{0};
    bool encrypted{false}, locked{false};
    SecureString pass{PASS1};
    std::set<COutPoint> model_persistent_locks, model_locks; //!< model: coins locked with persist=true / all locked coins
    std::string side;

    void Snapshot(WalletSim& ws)
    {
        if (!crash_mode) return;
        ws.sim.SyncSignals();
        Records r;
        bool ok = DumpRecords(ws.wallet().GetDatabase(), r);
        VCHECK(ok, "c43.harness", "cannot read the records of the live wallet");
        WriteSnapshot(side + "/snap-" + util::ToString(n_snap) + ".txt", r);
        Mark("state " + util::ToString(n_snap));
        ++n_snap;
    }

    void Run()
    {
        int64_t mock = GENESIS_TIME + 3600;
        SetMockTime(mock);
        ChainSimOpts o;
        o.immediate_signals = false;
        std::vector<std::string> keep;
        if (crash_mode) {
            keep.push_back("-testdatadir=" + Env("VH_W_ROOT"));
            o.extra_args.push_back(keep.back().c_str());
            side = Env("VH_W_SIDE");
        }
        ChainSim sim(o);
        LoadWalletBase(sim, 104);

        WalletSimOpts wo;
        wo.on_disk = true;
        wo.unsafe_sync = !crash_mode;
        wo.generated_seed = s.chance(80);
        wo.keypool = s.pick<int>({3, 2, 4});
        wo.rescan = true;
        unsigned nops = s.range<unsigned>(4, crash_mode ? 14 : 30);
        st.mix(uint64_t(wo.generated_seed)); st.mix(uint64_t(wo.keypool));
        st.note(wo.generated_seed ? "generated-seed" : "fixed-descriptors", " keypool=", wo.keypool);

        // wallet creation with a generated seed is itself one of the atomic groups (descriptor setup)
        Mark(std::string("op-begin ") + (wo.generated_seed ? "create-generated 1" : "create-fixed 0"));
        WalletSim ws(sim, wo);
        sim.SyncSignals();
        // CWallet::CreateNew gives every new wallet this flag (descriptor caches are complete from birth); WalletSim builds the wallet by hand
        ws.wallet().SetWalletFlag(wallet::WALLET_FLAG_LAST_HARDENED_XPUB_CACHED);
        Mark(std::string("op-end ") + (wo.generated_seed ? "create-generated" : "create-fixed"));
        Mark("begin");

        DescModel model;
        model.range = 24;
        if (!wo.generated_seed) for (auto& d : WalletSimFixedDescriptors()) model.AddString(d, /*persistent=*/true);
        model.Refresh(ws.wallet());

        // foreign (anyone-can-spend) coins: coinbases of heights 1..4, mature for the next block
        std::vector<std::pair<COutPoint, RefCoin>> foreign;
        {
            auto path = sim.ledger.Path(sim.TipHash());
            for (int h = 1; h <= 4; ++h) {
                const auto& cb = sim.ledger.At(path[h]).vtx[0];
                foreign.emplace_back(COutPoint(cb->GetHash(), 0), RefCoin{cb->vout[0].nValue, cb->vout[0].scriptPubKey, h, true});
            }
        }
        std::vector<CTxDestination> own_dests, foreign_book;
        std::vector<Txid> wallet_txids; // transactions the harness knows to be in the wallet (candidates for removal / abandon)
        int n_import = 0, extra_nonce = 0;
        std::set<std::string> op_classes;

        auto wallet_script = [&]() -> CScript {
            if (!own_dests.empty() && s.boolean()) return GetScriptForDestination(own_dests[s.index(own_dests.size())]);
            // a look-ahead script of an active descriptor (own expansion)
            const OutputType t = ALL_TYPES[s.index(4)];
            auto* spkm = ws.wallet().GetScriptPubKeyMan(t, /*internal=*/false);
            if (spkm) { model.Refresh(ws.wallet()); if (const CScript* spk = model.ScriptAt(spkm->GetID(), s.range<int>(0, wo.keypool - 1))) return *spk; }
            auto r = ws.wallet().GetNewDestination(OutputType::BECH32, "");
            if (r) { own_dests.push_back(*r); return GetScriptForDestination(*r); }
            return P2WSH_OP_TRUE;
        };
        auto do_unlock = [&] { if (encrypted && locked) { bool ok = ws.wallet().Unlock(pass); VCHECK(ok, "c43.harness", "unlock failed"); locked = false; } };

        auto begin_op = [&](const char* kind, bool atomic) { Snapshot(ws); Mark(std::string("op-begin ") + kind + (atomic ? " 1" : " 0")); };
        // the snapshot "after" is taken right at the end of the operation, the snapshot "before" right at its start: whatever the harness
        // does between two operations (address for the next payment, top-up normalisation, ...) lies between two snapshots of its own
        auto end_op = [&](const char* kind) { sim.SyncSignals(); Mark(std::string("op-end ") + kind); Snapshot(ws); op_classes.insert(kind); ++n_ops; };

        auto restart = [&] {
            sim.SyncSignals();
            // the wallet tops up keypools when it is loaded (active descriptors in LoadExisting; any descriptor that a mempool / rescanned
            // transaction pays, through MarkUnusedAddresses): do it now for every descriptor so that loading changes nothing
            {
                LOCK(ws.wallet().cs_wallet);
                for (auto* spkm : ws.wallet().GetAllScriptPubKeyMans()) spkm->TopUp();
            }
            const std::vector<std::string> before = crash_mode ? std::vector<std::string>{} : CanonicalDump(ws.wallet());
            {
                std::vector<COutPoint> locked_now;
                WITH_LOCK(ws.wallet().cs_wallet, ws.wallet().ListLockedCoins(locked_now));
                st.steps++;
                VCHECK(std::set<COutPoint>(locked_now.begin(), locked_now.end()) == model_locks, "c43.locked-coins-model", "locked coins before the restart: wallet", locked_now.size(), "model", model_locks.size());
            }
            const size_t n_wtx = WITH_LOCK(ws.wallet().cs_wallet, return ws.wallet().mapWallet.size());
            begin_op("reload", false);
            // a clean unload (RemoveWallet) records the best block before it disconnects from the chain; WalletSim::Unload only destroys the object
            WITH_LOCK(ws.wallet().cs_wallet, ws.wallet().WriteBestBlock());
            std::string err;
            bool ok = ws.Reload(&err);
            st.steps++;
            VCHECK(ok, "c43.reload-fails", err);
            end_op("reload");
            if (encrypted) locked = true;
            ++n_reload;
            n_wtx_at_reload = std::max<int>(n_wtx_at_reload, n_wtx);
            if (!crash_mode) {
                sim.SyncSignals();
                const std::vector<std::string> after = CanonicalDump(ws.wallet());
                st.steps++;
                std::string diff = FirstDifference(before, after);
                VCHECK(diff.empty(), "c43.dump-differs-after-restart", diff, "| restart #", n_reload, "lines", before.size(), "| history:", st.sample);
                std::vector<COutPoint> locked_now;
                WITH_LOCK(ws.wallet().cs_wallet, ws.wallet().ListLockedCoins(locked_now));
                st.steps++;
                VCHECK(std::set<COutPoint>(locked_now.begin(), locked_now.end()) == model_persistent_locks, "c43.locked-coins-after-restart", "wallet lists", locked_now.size(),
                       "locked coins, the model holds", model_persistent_locks.size(), "persistent locks");
            }
            model_locks = model_persistent_locks; // memory-only locks are documented to be cleared by a restart
            model.Refresh(ws.wallet());
            st.note("RESTART(", n_wtx, " wtx)");
        };

        for (unsigned op = 0; op < nops && !s.exhausted(); ++op) {
            unsigned kind = s.range<unsigned>(0, 21);
            // crash workloads: more of the operations the statement lists as one database transaction (and of what feeds them)
            if (crash_mode && s.chance(110)) kind = s.pick<unsigned>({16, 15, 14, 9, 8, 2});
            st.mix(uint64_t(kind));
            if (kind <= 1) {
                const OutputType t = ALL_TYPES[s.index(4)];
                const bool internal = s.chance(64);
                begin_op("newaddr", false);
                auto r = internal ? ws.wallet().GetNewChangeDestination(t) : ws.wallet().GetNewDestination(t, LABELS[s.index(LABELS.size())]);
                end_op("newaddr");
                if (r) { own_dests.push_back(*r); st.note("newaddr ", TypeName(t), internal ? " change" : ""); }
            } else if (kind <= 3) {
                // receive: a foreign coin pays 1-2 wallet scripts (+ foreign change), into the mempool
                if (foreign.empty()) continue;
                auto in = foreign[s.index(foreign.size())];
                if (in.second.value < 4 * FEE + 40000) continue;
                unsigned nw = s.range<unsigned>(1, 2);
                std::vector<CTxOut> outs;
                CAmount rest = in.second.value - FEE;
                begin_op("receive", false);
                for (unsigned i = 0; i < nw; ++i) { CAmount v = rest / 4; rest -= v; outs.emplace_back(v, wallet_script()); }
                outs.emplace_back(rest, P2WSH_OP_TRUE);
                CTransactionRef tx = MakeTransactionRef(sim.MakeTx({in}, outs));
                auto res = ws.Submit(tx);
                end_op("receive");
                if (res.m_result_type != MempoolAcceptResult::ResultType::VALID) { st.cls("receive-rejected"); continue; }
                foreign.erase(std::find_if(foreign.begin(), foreign.end(), [&](auto& f) { return f.first == in.first; }));
                foreign.emplace_back(COutPoint(tx->GetHash(), nw), RefCoin{rest, P2WSH_OP_TRUE, -1, false});
                wallet_txids.push_back(tx->GetHash());
                st.note("receive x", nw);
            } else if (kind == 4 || kind == 5) {
                begin_op("block", false);
                const CScript cb_spk = s.chance(64) ? wallet_script() : CScript();
                auto m = ws.Mine(sim.TipHash(), ws.MempoolTxs(), cb_spk, ++extra_nonce);
                end_op("block");
                VCHECK(m.delivery.processed, "c43.harness", "block rejected");
                if (crash_mode) AppendPlan(side + "/plan.bin", *m.block);
                st.note("block(", m.txs.size(), " txs)");
            } else if (kind == 6 || kind == 7) {
                // send: the wallet spends one of its coins (change back to the wallet), with a comment
                do_unlock();
                WsLedger L = ws.Ledger();
                if (L.spendable.empty()) continue;
                auto it = L.spendable.begin();
                std::advance(it, s.index(L.spendable.size()));
                const WsCoin& c = L.coins.at(it->first);
                if (c.value < 3 * FEE + 2000) continue;
                // CommitTransaction's contract (CreateTransaction only selects such coins): the transaction that created the coin is in the wallet
                if (!WITH_LOCK(ws.wallet().cs_wallet, return ws.wallet().mapWallet.count(it->first.hash))) continue;
                begin_op("send", false);
                auto chg = ws.wallet().GetNewChangeDestination(OutputType::BECH32);
                if (!chg) { end_op("send"); continue; }
                std::vector<CTxOut> outs{CTxOut((c.value - FEE) / 2, P2WSH_OP_TRUE), CTxOut(c.value - FEE - (c.value - FEE) / 2, GetScriptForDestination(*chg))};
                auto mtx = ws.MakeTx({{it->first, RefCoin{c.value, c.spk, c.height, c.coinbase}}}, outs);
                if (!mtx) { end_op("send"); continue; }
                CTransactionRef tx = MakeTransactionRef(*mtx);
                const bool broadcast = !s.chance(64);
                ws.wallet().CommitTransaction(tx, std::nullopt, std::string("comment ") + util::ToString(op), s.boolean() ? std::optional<std::string>("to someone") : std::nullopt);
                if (broadcast) ws.Submit(tx); else ws.Track(tx);
                end_op("send");
                // documented wallet behaviour: a coin spent by a wallet transaction is unlocked (CWallet::AddToSpends)
                model_locks.erase(it->first); model_persistent_locks.erase(it->first);
                wallet_txids.push_back(tx->GetHash());
                if (!broadcast && s.boolean()) {
                    begin_op("abandon", false);
                    bool ok = ws.wallet().AbandonTransaction(tx->GetHash());
                    end_op("abandon");
                    st.note("send(unbroadcast)+abandon=", ok);
                } else st.note(broadcast ? "send" : "send(unbroadcast)");
            } else if (kind == 8) {
                const bool own = !own_dests.empty() && s.boolean();
                CTxDestination dest = own ? own_dests[s.index(own_dests.size())] : CTxDestination(PKHash(uint160(std::vector<unsigned char>(20, uint8_t(1 + s.range<unsigned>(0, 5))))));
                begin_op("setlabel", false);
                ws.wallet().SetAddressBook(dest, LABELS[s.index(LABELS.size())], own ? wallet::AddressPurpose::RECEIVE : wallet::AddressPurpose::SEND);
                end_op("setlabel");
                if (!own && std::find(foreign_book.begin(), foreign_book.end(), dest) == foreign_book.end()) foreign_book.push_back(dest);
                st.note(own ? "label-own" : "label-foreign");
            } else if (kind == 9) {
                if (foreign_book.empty()) continue;
                size_t i = s.index(foreign_book.size());
                begin_op("deladdr", true);
                bool ok = ws.wallet().DelAddressBook(foreign_book[i]);
                end_op("deladdr");
                if (ok) foreign_book.erase(foreign_book.begin() + i);
                st.note("deladdr=", ok);
            } else if (kind == 10 || kind == 11) {
                WsLedger L = ws.Ledger();
                COutPoint coin = !L.coins.empty() && s.chance(200) ? std::next(L.coins.begin(), s.index(L.coins.size()))->first : COutPoint(Txid::FromUint256(uint256(uint8_t(1 + s.range<unsigned>(0, 3)))), s.range<uint32_t>(0, 2));
                if (kind == 10) {
                    // lockunspent refuses only a NON-persistent lock request for an already locked coin; re-locking with persistence is allowed
                    const bool persist = s.chance(176);
                    if (model_locks.count(coin) && !persist) continue;
                    begin_op("lockcoin", false);
                    WITH_LOCK(ws.wallet().cs_wallet, ws.wallet().LockCoin(coin, persist));
                    end_op("lockcoin");
                    model_locks.insert(coin);
                    if (persist) model_persistent_locks.insert(coin);
                    st.note(persist ? "lockcoin(persistent)" : "lockcoin(memory)");
                } else if (s.chance(200)) {
                    begin_op("unlockcoin", false);
                    WITH_LOCK(ws.wallet().cs_wallet, ws.wallet().UnlockCoin(coin));
                    end_op("unlockcoin");
                    model_persistent_locks.erase(coin);
                    model_locks.erase(coin);
                    st.note("unlockcoin");
                } else {
                    begin_op("unlockall", false);
                    WITH_LOCK(ws.wallet().cs_wallet, ws.wallet().UnlockAllCoins());
                    end_op("unlockall");
                    model_persistent_locks.clear();
                    model_locks.clear();
                    st.note("unlockall");
                }
            } else if (kind == 12) {
                if (encrypted && locked) do_unlock();
                unsigned form = s.range<unsigned>(0, 3); // 3: HARDENED range (every top-up writes one cache row per new index)
                if (form == 3 && wo.generated_seed) form = 2; // WalletSim::Reload re-expands the descriptors of a generated-seed wallet from their PUBLIC strings
                ++n_import;
                std::string d;
                if (form == 0) { CKey k; std::vector<unsigned char> b(32, uint8_t(0x40 + n_import)); k.Set(b.begin(), b.end(), true); d = "wpkh(" + EncodeSecret(k) + ")"; }
                else if (form == 1) { CKey k; std::vector<unsigned char> b(32, uint8_t(0x60 + n_import)); k.Set(b.begin(), b.end(), true); d = "pkh(" + EncodeSecret(k) + ")"; }
                else d = std::string("wpkh(") + IMPORT_TPRV + "/43h/" + util::ToString(n_import) + (form == 2 ? "/*)" : "h/*h)");
                const bool active = form >= 2 && s.boolean();
                std::string err;
                begin_op("import", false);
                auto id = ImportDescriptor(ws.wallet(), d, active, /*internal=*/false, /*range_end=*/wo.keypool, LABELS[s.index(LABELS.size())], &err);
                end_op("import");
                VCHECK(id.has_value(), "c43.harness", "import failed", err);
                model.AddString(d);
                st.note("import(", form >= 2 ? (active ? "ranged,active" : "ranged") : "single-key", form == 3 ? ",hardened" : "", ")");
            } else if (kind == 13) {
                // (the avoid_reuse flag is not toggled: setwalletflag documents that a rescan is needed afterwards, otherwise the wallet marks
                // used destinations lazily whenever it re-processes a transaction, e.g. mempool transactions at load time)
                const unsigned what = s.range<unsigned>(2, 3);
                begin_op("setting", false);
                if (!own_dests.empty()) {
                    LOCK(ws.wallet().cs_wallet);
                    wallet::WalletBatch batch(ws.wallet().GetDatabase());
                    const CTxDestination& dest = own_dests[s.index(own_dests.size())];
                    if (what == 2) ws.wallet().SetAddressPreviouslySpent(batch, dest, s.boolean());
                    else ws.wallet().SetAddressReceiveRequest(batch, dest, util::ToString(s.range<unsigned>(0, 2)), "request-" + util::ToString(op));
                }
                end_op("setting");
                st.note("setting#", what);
            } else if (kind == 14) {
                // removal of wallet transactions (removeprunedfunds): one database transaction
                // precondition (removeprunedfunds is for transactions the node no longer serves): not in the node mempool, else the wallet
                // legitimately learns the transaction again from the mempool when it is loaded
                std::vector<Txid> have;
                {
                    std::set<Txid> in_mempool;
                    for (auto& tx : ws.MempoolTxs()) in_mempool.insert(tx->GetHash());
                    LOCK(ws.wallet().cs_wallet);
                    for (auto& id : wallet_txids) if (ws.wallet().mapWallet.count(id) && !in_mempool.count(id)) have.push_back(id);
                }
                if (have.empty()) continue;
                std::vector<Txid> rm;
                unsigned n = s.range<unsigned>(1, 3);
                for (unsigned i = 0; i < n && !have.empty(); ++i) { size_t j = s.index(have.size()); rm.push_back(have[j]); have.erase(have.begin() + j); }
                begin_op("removetxs", true);
                auto res = WITH_LOCK(ws.wallet().cs_wallet, return ws.wallet().RemoveTxs(rm));
                end_op("removetxs");
                st.note("removetxs(", rm.size(), ")=", bool(res));
            } else if (kind == 15) {
                if (!encrypted) {
                    begin_op("encrypt", true);
                    bool ok = ws.wallet().EncryptWallet(pass);
                    end_op("encrypt");
                    VCHECK(ok, "c43.harness", "EncryptWallet failed");
                    encrypted = true; locked = true;
                    model.Refresh(ws.wallet());
                    st.note("encrypt");
                } else if (locked) { do_unlock(); st.note("unlock"); }
                else if (s.boolean()) { ws.wallet().Lock(); locked = true; st.note("lock"); }
                else {
                    const SecureString np = pass == PASS1 ? PASS2 : PASS1;
                    begin_op("changepass", false);
                    bool ok = ws.wallet().ChangeWalletPassphrase(pass, np);
                    end_op("changepass");
                    VCHECK(ok, "c43.harness", "ChangeWalletPassphrase failed");
                    pass = np;
                    st.note("changepass");
                }
            } else if (kind == 16) {
                unsigned n = s.pick<unsigned>({0, 5, 9});
                begin_op("topup", true);
                ws.wallet().TopUpKeyPool(n);
                end_op("topup");
                st.note("topup(", n, ")");
            } else if (kind == 17 && !crash_mode) {
                // reorg: replace the tip by two blocks; its transactions return to the mempool
                if (sim.TipHeight() <= 104) continue;
                const uint256 parent = sim.ledger.At(sim.TipHash()).prev;
                auto m1 = ws.Mine(parent, {}, CScript(), ++extra_nonce);
                auto m2 = ws.Mine(m1.block->GetHash(), {}, CScript(), ++extra_nonce);
                VCHECK(m2.delivery.processed && sim.TipHash() == m2.block->GetHash(), "c43.harness", "reorg failed");
                op_classes.insert("reorg");
                st.note("reorg");
            } else if (kind == 18) {
                mock += s.pick<int64_t>({1, 60, 3600});
                SetMockTime(mock);
            } else {
                restart();
            }
        }
        restart(); // every history ends with a restart: all operations are covered by at least one comparison
        Snapshot(ws);
        Mark("end");
        for (auto& c : op_classes) st.cls("op:" + c);
        if (encrypted) st.cls("encrypted");
        if (n_wtx_at_reload >= 1) st.cls("restart-with-transactions");
        st.mix(uint64_t(n_reload)); st.mix(uint64_t(std::min(n_wtx_at_reload, 6)));
        st.nontrivial = n_reload >= 1 && n_wtx_at_reload >= 1 && n_ops >= 5 && op_classes.size() >= 4;
    }
};

} // namespace

VERIF_TARGET(c43_wallet_persist, nullptr, 48, 700,
             "histories (4-30 ops, always ending with a restart) on an on-disk SQLite descriptor wallet attached to a regtest node (fixed descriptors or "
             "generated seed): new receive/change addresses with labels, receive from foreign coins (to handed-out and look-ahead scripts), blocks (also "
             "paying the wallet), wallet sends with comments (broadcast or not, then abandoned), labels for own/foreign addresses, address-book deletion, "
             "LockCoin persistent/memory-only, UnlockCoin/UnlockAllCoins, descriptor imports (single-key with label, ranged, hardened, active), previously-spent marks / "
             "receive requests, RemoveTxs, encrypt / lock / unlock / change passphrase, TopUpKeyPool, reorg of the tip, mock-time jumps, "
             "clean unload + reload. Oracle at every restart: canonical dump (descriptors incl. range/next index/script-set hash/private strings, master keys, "
             "transactions with state/time/order/comments, address book incl. purposes/used/requests, persistent locks, flags, best block) before == after; "
             "persistent locks == harness model. non-trivial = restart with >=1 wallet transaction, >=5 mutating ops of >=4 kinds; distinct = op-kind sequence")
{
    PHist h(s, st, /*crash=*/false);
    h.Run();
}

VERIF_TARGET(c43_lockcoins, nullptr, 8, 96,
             "lock/unlock sequences over 3 outpoints on an on-disk wallet: LockCoin(persistent|memory-only) also on an already locked coin (the lockunspent RPC "
             "allows re-locking to make a lock persistent), UnlockCoin, UnlockAllCoins, clean restart. Model from the RPC documentation: a coin is locked from a "
             "lock until an unlock; it survives a restart iff some lock request since its last unlock asked for persistence; unlocking clears both kinds. "
             "Oracle: ListLockedCoins == model before every restart, == the persistent part after it. non-trivial = >=1 restart with a persistent lock + >=1 "
             "unlock; distinct = op sequence")
{
    SetMockTime(GENESIS_TIME + 3600);
    ChainSimOpts o;
    o.immediate_signals = false;
    ChainSim sim(o);
    LoadWalletBase(sim, 8);
    WalletSimOpts wo;
    wo.on_disk = true; wo.unsafe_sync = true; wo.keypool = 1; wo.rescan = false;
    WalletSim ws(sim, wo);
    std::set<COutPoint> locked, persistent;
    const COutPoint coins[3] = {COutPoint(Txid::FromUint256(uint256(uint8_t(1))), 0), COutPoint(Txid::FromUint256(uint256(uint8_t(1))), 1), COutPoint(Txid::FromUint256(uint256(uint8_t(2))), 0)};
    unsigned nops = s.range<unsigned>(4, 16);
    int restarts = 0, unlocks = 0, relocks = 0;
    bool restart_with_persistent = false;
    auto check = [&](const char* when, const std::set<COutPoint>& want) {
        std::vector<COutPoint> now;
        WITH_LOCK(ws.wallet().cs_wallet, ws.wallet().ListLockedCoins(now));
        st.steps++;
        std::set<COutPoint> got(now.begin(), now.end());
        std::string diff;
        for (auto& c : got) if (!want.count(c)) diff += " wallet lists " + c.ToString() + " as locked, the model does not;";
        for (auto& c : want) if (!got.count(c)) diff += " the model holds " + c.ToString() + " as locked, the wallet does not;";
        VCHECK(diff.empty(), "c43.locked-coins-differ", when, diff, "| history:", st.sample);
    };
    for (unsigned op = 0; op < nops && !s.exhausted(); ++op) {
        unsigned kind = s.range<unsigned>(0, 9);
        if ((kind == 4 || kind == 5) && locked.empty()) kind = 0; // nothing to unlock (the RPC refuses to unlock a coin that is not locked): lock instead
        st.mix(uint64_t(kind));
        auto cid = [&](const COutPoint& c) { return c.n + 2 * (c.hash == coins[2].hash); };
        if (kind <= 3) {
            bool persist = s.boolean();
            // half of the time aim at an already locked coin; lockunspent refuses only a NON-persistent request for a locked coin
            COutPoint c = coins[s.index(3)];
            if (!locked.empty() && s.boolean()) { c = *std::next(locked.begin(), s.index(locked.size())); persist = true; }
            if (locked.count(c) && !persist) persist = true;
            if (locked.count(c)) ++relocks;
            WITH_LOCK(ws.wallet().cs_wallet, ws.wallet().LockCoin(c, persist));
            locked.insert(c);
            if (persist) persistent.insert(c);
            st.mix(uint64_t(cid(c) * 2 + persist));
            st.note(persist ? "lock-persistent " : "lock-memory ", cid(c));
        } else if (kind == 4 || kind == 5) {
            const COutPoint c = *std::next(locked.begin(), s.index(locked.size()));
            WITH_LOCK(ws.wallet().cs_wallet, ws.wallet().UnlockCoin(c));
            locked.erase(c); persistent.erase(c); ++unlocks;
            st.mix(uint64_t(cid(c)));
            st.note("unlock ", cid(c));
        } else if (kind == 6) {
            WITH_LOCK(ws.wallet().cs_wallet, ws.wallet().UnlockAllCoins());
            unlocks += !locked.empty();
            locked.clear(); persistent.clear();
            st.note("unlock-all");
        } else {
            check("before restart:", locked);
            std::string err;
            VCHECK(ws.Reload(&err), "c43.reload-fails", err);
            ++restarts;
            restart_with_persistent |= !persistent.empty();
            locked = persistent;
            check("after restart:", locked);
            st.note("RESTART");
        }
    }
    check("at the end:", locked);
    std::string err;
    VCHECK(ws.Reload(&err), "c43.reload-fails", err);
    locked = persistent;
    check("after the final restart:", locked);
    if (relocks) st.cls("relock");
    if (restarts) st.cls("restart");
    st.nontrivial = restart_with_persistent && unlocks >= 1;
}

VERIF_TARGET(c43_workload, nullptr, 40, 260,
             "crash workload (run under the E3 recorder): the c43_wallet_persist interpreter (4-14 ops) with production durability; record-level snapshots at "
             "every op boundary + MARK state/op-begin/op-end lines; judged by c43_recover on every crash image")
{
    PHist h(s, st, /*crash=*/true);
    h.Run();
    st.steps++;
}

VERIF_TARGET(c43_recover, nullptr, 0, 8,
             "recovery oracle for one crash image of a c43 workload: the database opens (hot journal rolled back) and its rows are read; if the cut fell "
             "inside an operation the statement lists as one database transaction (descriptor setup at creation / after encryption, encryption, keypool "
             "top-up per descriptor, RemoveTxs, address-book removal) every changed row of that group is as in the snapshot before or as in the snapshot "
             "after, never mixed; then CWallet::LoadExisting on the image succeeds (same chain as the workload) and the wallet can be dumped and hand out an address")
{
    SetMockTime(GENESIS_TIME + 7200);
    ChainSimOpts o;
    o.immediate_signals = false;
    ChainSim sim(o);
    LoadWalletBase(sim, 104);
    const std::string side = Env("VH_W_SIDE"), kind = Env("VH_W_KIND");
    for (auto& b : ReadPlan(side + "/plan.bin")) { sim.Register(b); sim.Deliver(b); }
    const bool creating = kind.rfind("create", 0) == 0;
    auto ws = PrepareImage(sim, Env("VH_W_IMAGE"), /*keypool=*/3);
    Records R;
    std::string err;
    if (!ReadImageRecords(ws->DbDir(), R, &err)) {
        if (creating) { std::cout << "CLASS creation-incomplete\n"; st.note("database not yet created: ", err); return; }
        std::cout << "IMAGE-UNLOADABLE database does not open: " << err << std::endl;
        return;
    }
    st.note(R.size(), " records");
    if (Env("VH_W_ATOMIC") == "1" && !Env("VH_W_AFTER").empty()) {
        Records A, B;
        if (!Env("VH_W_BEFORE").empty()) VCHECK(ReadSnapshot(side + "/snap-" + Env("VH_W_BEFORE") + ".txt", A), "c43.harness", "snapshot before missing");
        VCHECK(ReadSnapshot(side + "/snap-" + Env("VH_W_AFTER") + ".txt", B), "c43.harness", "snapshot after missing");
        GroupVerdict gv = CheckGroups(A, B, R, kind);
        st.steps++;
        VCHECK(gv.ok, "c43.atomic-group-partially-applied", gv.why);
        st.note("op ", kind, ": ", gv.groups, " atomic groups / ", gv.keys, " changed rows: ", gv.present, " present, ", gv.absent, " absent");
        if (gv.groups) std::cout << "CLASS atomic-group-checked\n";
        if (gv.present) std::cout << "CLASS group-present\n";
        if (gv.absent) std::cout << "CLASS group-absent\n";
        st.nontrivial = gv.groups >= 1 && gv.keys >= 2;
    }
    bool ok = ws->Reload(&err);
    if (!ok) {
        if (creating && !R.count(HexStr(std::string("\x05") + "flags"))) { std::cout << "CLASS creation-incomplete\n"; return; }
        std::cout << "IMAGE-UNLOADABLE " << err << std::endl;
        return;
    }
    st.steps++;
    std::vector<std::string> dump = CanonicalDump(ws->wallet());
    auto r = ws->wallet().GetNewDestination(OutputType::BECH32, "");
    st.note("loaded: ", dump.size(), " dump lines, new address ", r ? "ok" : "none");
    std::cout << "CLASS image-loaded\n";
}
