// C47 — PSBTs round-trip, combine and finalize correctly.
// Oracles:
//  * c47.roundtrip          decode(encode(decode(x))) has the same content as decode(x) (own field walker, not operator==) and the
//                           second encoding is a byte fixpoint. x comes from an INDEPENDENT writer (own key/value map encoder, own tx
//                           serializer) driven by a structured model, optionally byte-mutated afterwards.
//  * c47.merge-self         Merge(p,p) changes nothing.
//  * c47.merge-union        field-disjoint shares of p (same transaction) combine, in two different orders, to the same PSBT, which
//                           contains every field of every share (== p, since every field lives in >= 1 share).
//  * c47.locktime-reference own BIP370 reference for the v2 locktime == ComputeTimeLock()
//  * c47.extract-txid / c47.extract-verify  (target c47_finalize; final scripts come from the signer only -- attacker-supplied final scripts are
//                           the known finding c47.extract-verify-bogus-final, target c47_bogus_final) FinalizeAndExtractPSBT succeeded => txid == txid of the unsigned
//                           transaction taken before finalization, every input passes VerifyScript against the PSBT's own UTXOs.
#include <engine/verif.h>
#include <kits/chainsim.h>

#include <hash.h>
#include <key.h>
#include <policy/policy.h>
#include <primitives/transaction.h>
#include <psbt.h>
#include <pubkey.h>
#include <script/interpreter.h>
#include <script/script.h>
#include <script/sign.h>
#include <script/signingprovider.h>
#include <streams.h>
#include <util/result.h>
#include <util/strencodings.h>
#include <util/translation.h>

#include <algorithm>
#include <array>
#include <memory>
#include <optional>
#include <sstream>
#include <string>
#include <vector>

namespace {

using Bytes = std::vector<uint8_t>;

// ------------------------------------------------------------------------------------------------ own little-endian writer
struct W {
    Bytes b;
    W& u8(uint8_t v) { b.push_back(v); return *this; }
    W& le32(uint32_t v) { for (int i = 0; i < 4; ++i) b.push_back(uint8_t(v >> (8 * i))); return *this; }
    W& le64(uint64_t v) { for (int i = 0; i < 8; ++i) b.push_back(uint8_t(v >> (8 * i))); return *this; }
    W& cs(uint64_t n)
    {
        if (n < 253) u8(uint8_t(n));
        else if (n <= 0xffff) { u8(253); u8(uint8_t(n)); u8(uint8_t(n >> 8)); }
        else if (n <= 0xffffffffULL) { u8(254); le32(uint32_t(n)); }
        else { u8(255); le64(n); }
        return *this;
    }
    W& raw(const Bytes& v) { b.insert(b.end(), v.begin(), v.end()); return *this; }
    W& var(const Bytes& v) { cs(v.size()); return raw(v); }
};

struct Rec { Bytes key; Bytes val; int kind; };
using RMap = std::vector<Rec>;
struct Model {
    RMap global;
    std::vector<RMap> ins, outs;
};

Bytes encode_model(const Model& m)
{
    W w;
    w.raw({0x70, 0x73, 0x62, 0x74, 0xff});
    auto put = [&](const RMap& mp) { for (auto& r : mp) { w.var(r.key); w.var(r.val); } w.u8(0); };
    put(m.global);
    for (auto& i : m.ins) put(i);
    for (auto& o : m.outs) put(o);
    return w.b;
}

struct MIn { Bytes txid; uint32_t n; uint32_t seq; Bytes script_sig; std::vector<Bytes> wit; };
struct MOut { int64_t amount; Bytes spk; };

Bytes ser_tx(uint32_t version, const std::vector<MIn>& ins, const std::vector<MOut>& outs, uint32_t locktime, bool with_witness)
{
    W w;
    w.le32(version);
    if (with_witness) { w.u8(0); w.u8(1); }
    w.cs(ins.size());
    for (auto& i : ins) { w.raw(i.txid); w.le32(i.n); w.var(i.script_sig); w.le32(i.seq); }
    w.cs(outs.size());
    for (auto& o : outs) { w.le64(uint64_t(o.amount)); w.var(o.spk); }
    if (with_witness) for (auto& i : ins) { w.cs(i.wit.size()); for (auto& it : i.wit) w.var(it); }
    w.le32(locktime);
    return w.b;
}

Bytes dsha256(const Bytes& v)
{
    uint256 h = Hash(v);
    return Bytes(h.begin(), h.end());
}

// ------------------------------------------------------------------------------------------------ process-wide key material
struct Global {
    std::unique_ptr<ECC_Context> ecc;
    std::vector<CKey> keys;
    std::vector<Bytes> comp, uncomp, xonly;
    std::unique_ptr<verif::KeyRing> ring;
};
Global& g = *new Global; // never destroyed (keys live in the locked pool)

void init()
{
    g.ecc = std::make_unique<ECC_Context>();
    for (int i = 0; i < 6; ++i) {
        std::array<unsigned char, 32> raw{};
        raw[0] = 0x47; raw[9] = 0x70; raw[31] = uint8_t(i + 1);
        CKey k;
        k.Set(raw.begin(), raw.end(), true);
        g.keys.push_back(k);
        CPubKey pk = k.GetPubKey();
        g.comp.emplace_back(pk.begin(), pk.end());
        XOnlyPubKey x{pk};
        g.xonly.emplace_back(x.begin(), x.end());
        pk.Decompress();
        g.uncomp.emplace_back(pk.begin(), pk.end());
    }
    g.ring = std::make_unique<verif::KeyRing>();
}

// ------------------------------------------------------------------------------------------------ field kinds (labels)
enum FK {
    F_NWU, F_WU, F_PARTIAL_SIG, F_SIGHASH, F_REDEEM, F_WSCRIPT, F_BIP32, F_FINAL_SIG, F_FINAL_WIT, F_RIPEMD, F_SHA256, F_HASH160, F_HASH256,
    F_SEQUENCE, F_TIME_LT, F_HEIGHT_LT, F_TAP_KEY_SIG, F_TAP_SCRIPT_SIG, F_TAP_LEAF, F_TAP_BIP32, F_TAP_IKEY, F_TAP_ROOT, F_MUSIG_PART, F_MUSIG_NONCE,
    F_MUSIG_PSIG, F_IN_PROP, F_IN_UNKNOWN, F_OUT_REDEEM, F_OUT_WSCRIPT, F_OUT_BIP32, F_OUT_TAP_IKEY, F_OUT_TAP_TREE, F_OUT_TAP_BIP32, F_OUT_MUSIG,
    F_OUT_PROP, F_OUT_UNKNOWN, F_XPUB, F_FALLBACK, F_MODIFIABLE, F_G_PROP, F_G_UNKNOWN, F_EXPLICIT_V0, F_REQUIRED, F_COUNT
};
const char* FK_NAME[F_COUNT] = {
    "in.non_witness_utxo", "in.witness_utxo", "in.partial_sig", "in.sighash", "in.redeem_script", "in.witness_script", "in.bip32", "in.final_scriptsig",
    "in.final_witness", "in.ripemd160", "in.sha256", "in.hash160", "in.hash256", "in.sequence", "in.time_locktime", "in.height_locktime", "in.tap_key_sig",
    "in.tap_script_sig", "in.tap_leaf_script", "in.tap_bip32", "in.tap_internal_key", "in.tap_merkle_root", "in.musig2_participants", "in.musig2_pubnonce",
    "in.musig2_partial_sig", "in.proprietary", "in.unknown", "out.redeem_script", "out.witness_script", "out.bip32", "out.tap_internal_key", "out.tap_tree",
    "out.tap_bip32", "out.musig2_participants", "out.proprietary", "out.unknown", "global.xpub", "global.fallback_locktime", "global.tx_modifiable",
    "global.proprietary", "global.unknown", "global.explicit_version0", "required"};

Bytes key1(uint8_t type) { return Bytes{type}; }
Bytes keyd(uint8_t type, const Bytes& data) { Bytes k{type}; k.insert(k.end(), data.begin(), data.end()); return k; }
Bytes le32b(uint32_t v) { return W{}.le32(v).b; }
Bytes cat(std::initializer_list<Bytes> l) { Bytes r; for (auto& x : l) r.insert(r.end(), x.begin(), x.end()); return r; }

Bytes small_script(verif::Src& s)
{
    switch (s.index(5)) {
    case 0: return Bytes{0x51};
    case 1: return cat({{0x00, 0x14}, Bytes(20, uint8_t(0x10 + s.index(4)))});
    case 2: return cat({{0x76, 0xa9, 0x14}, Bytes(20, uint8_t(0x20 + s.index(4))), {0x88, 0xac}});
    case 3: return cat({{0x51, 0x20}, g.xonly[s.index(6)]});
    default: { Bytes b = s.bytes(s.range<size_t>(0, 12)); return b; }
    }
}
Bytes keypath_value(verif::Src& s)
{
    W w;
    w.raw(s.bytes(4)); w.b.resize(4);
    unsigned n = unsigned(s.index(4));
    for (unsigned i = 0; i < n; ++i) w.le32(s.pick<uint32_t>({0, 1, 0x80000000u, 0x8000002cu, 0xffffffffu}));
    return w.b;
}
Bytes hash_n(verif::Src& s, size_t n) { Bytes h(n, 0); h[0] = uint8_t(s.range<unsigned>(0, 255)); h[n - 1] = uint8_t(s.index(4)); return h; }
const Bytes CANNED_SIG = {0x30, 0x06, 0x02, 0x01, 0x01, 0x02, 0x01, 0x01};

Bytes proprietary_key(verif::Src& s)
{
    W w;
    w.u8(0xfc);
    Bytes id = s.bytes(s.index(4));
    w.var(id);
    w.cs(s.pick<uint64_t>({0, 1, 252, 253, 70000}));
    w.raw(s.bytes(s.index(3)));
    return w.b;
}
Bytes unknown_key(verif::Src& s, std::initializer_list<uint8_t> types)
{
    W w;
    if (s.chance(40)) w.cs(s.pick<uint64_t>({0xfd, 0x100, 0x12345}));
    else w.u8(s.pick<uint8_t>(types));
    w.raw(s.bytes(s.index(4)));
    return w.b;
}

struct GenInfo {
    bool v2{false};
    bool injected_invalid{false};
    bool mutated{false};
    unsigned nin{0}, nout{0};
};

/** Build a PSBT model. Everything is meant to be accepted by a conforming decoder unless `injected_invalid`. */
Model gen_model(verif::Src& s, GenInfo& gi)
{
    Model m;
    gi.v2 = s.boolean();
    gi.nin = unsigned(s.range<unsigned>(0, 3));
    gi.nout = unsigned(s.range<unsigned>(0, 3));
    if (gi.nin == 0 && !s.chance(16)) gi.nin = 1;
    const uint32_t tx_version = s.pick<uint32_t>({2, 1, 3, 0xffffffffu});
    const uint32_t locktime = s.pick<uint32_t>({0, 1, 499999999, 500000000, 0xffffffffu});
    std::vector<MIn> tins;
    std::vector<MOut> touts;
    std::vector<Bytes> nwu_ser(gi.nin);

    // inputs: outpoints (+ the previous transaction if a non-witness utxo is supplied)
    for (unsigned i = 0; i < gi.nin; ++i) {
        MIn in;
        in.n = uint32_t(s.index(3));
        in.seq = s.pick<uint32_t>({0xffffffffu, 0xfffffffeu, 0, 1u << 22});
        if (s.chance(100)) {
            std::vector<MIn> pins(1);
            pins[0].txid = Bytes(32, uint8_t(0xc0 + i)); pins[0].n = 0; pins[0].seq = 0xffffffff; pins[0].script_sig = s.bytes(s.index(4));
            bool wit = s.chance(64);
            if (wit) pins[0].wit = {Bytes{1, 2, 3}, Bytes{}};
            std::vector<MOut> pouts;
            for (unsigned k = 0; k <= in.n + s.index(2); ++k) pouts.push_back({int64_t(1000 * (k + 1)), small_script(s)});
            uint32_t pver = 2, plock = uint32_t(s.index(3));
            in.txid = dsha256(ser_tx(pver, pins, pouts, plock, false));
            nwu_ser[i] = ser_tx(pver, pins, pouts, plock, wit);
        } else {
            in.txid = Bytes(32, uint8_t(0x80 + i)); in.txid[3] = uint8_t(s.index(3));
        }
        tins.push_back(in);
    }
    for (unsigned i = 0; i < gi.nout; ++i) touts.push_back({s.pick<int64_t>({0, 1, 546, 2100000000000000LL, 5000000000LL}), small_script(s)});

    // ---- global map
    if (!gi.v2) {
        m.global.push_back({key1(PSBT_GLOBAL_UNSIGNED_TX), ser_tx(tx_version, tins, touts, locktime, false), F_REQUIRED});
        if (s.chance(24)) m.global.push_back({key1(PSBT_GLOBAL_VERSION), le32b(0), F_EXPLICIT_V0});
    } else {
        m.global.push_back({key1(PSBT_GLOBAL_TX_VERSION), le32b(tx_version), F_REQUIRED});
        if (s.chance(128)) m.global.push_back({key1(PSBT_GLOBAL_FALLBACK_LOCKTIME), le32b(locktime), F_FALLBACK});
        m.global.push_back({key1(PSBT_GLOBAL_INPUT_COUNT), W{}.cs(gi.nin).b, F_REQUIRED});
        m.global.push_back({key1(PSBT_GLOBAL_OUTPUT_COUNT), W{}.cs(gi.nout).b, F_REQUIRED});
        if (s.chance(100)) m.global.push_back({key1(PSBT_GLOBAL_TX_MODIFIABLE), Bytes{uint8_t(s.pick<uint8_t>({0, 1, 2, 3, 4, 7, 0xff}))}, F_MODIFIABLE});
        m.global.push_back({key1(PSBT_GLOBAL_VERSION), le32b(2), F_REQUIRED});
    }
    for (unsigned k = unsigned(s.index(3)); k > 0; --k) {
        // xpub: version(4) depth(1) parent fp(4) child(4) chaincode(32) pubkey(33)
        W x;
        uint8_t depth = uint8_t(s.index(4));
        uint32_t child = depth ? uint32_t(s.index(3)) : 0; // a depth-0 (master) xpub must have zero parent fingerprint and child number
        x.raw({0x04, 0x88, 0xb2, 0x1e}).u8(depth).raw(Bytes(4, depth ? uint8_t(k) : uint8_t(0))).le32(child).raw(Bytes(32, uint8_t(0x55 + k))).raw(g.comp[(k + s.index(3)) % 6]);
        m.global.push_back({keyd(PSBT_GLOBAL_XPUB, x.b), keypath_value(s), F_XPUB}); // value = fingerprint + path (length prefix added by the encoder)
    }
    for (unsigned k = unsigned(s.index(3)); k > 0; --k) m.global.push_back({proprietary_key(s), s.bytes(s.index(5)), F_G_PROP});
    for (unsigned k = unsigned(s.index(3)); k > 0; --k) m.global.push_back({unknown_key(s, {0x07, 0x08, 0x10, 0xfa, 0x09}), s.bytes(s.index(5)), F_G_UNKNOWN});

    // ---- inputs
    for (unsigned i = 0; i < gi.nin; ++i) {
        RMap r;
        if (!nwu_ser[i].empty()) r.push_back({key1(PSBT_IN_NON_WITNESS_UTXO), nwu_ser[i], F_NWU});
        if (s.chance(100)) r.push_back({key1(PSBT_IN_WITNESS_UTXO), W{}.le64(uint64_t(s.pick<int64_t>({0, 1, 50000, 2100000000000000LL}))).var(small_script(s)).b, F_WU});
        for (unsigned k = unsigned(s.index(3)); k > 0; --k) {
            const Bytes& pk = s.boolean() ? g.uncomp[(i + k) % 6] : g.comp[(i + k) % 6];
            Bytes sig = CANNED_SIG; sig[4] = uint8_t(1 + s.index(100)); sig.push_back(s.pick<uint8_t>({1, 2, 3, 0x81, 0x82, 0x83}));
            r.push_back({keyd(PSBT_IN_PARTIAL_SIG, pk), sig, F_PARTIAL_SIG});
        }
        if (s.chance(64)) r.push_back({key1(PSBT_IN_SIGHASH), le32b(s.pick<uint32_t>({0, 1, 2, 3, 0x81, 0x83, 0xffffffffu})), F_SIGHASH});
        if (s.chance(64)) r.push_back({key1(PSBT_IN_REDEEMSCRIPT), small_script(s), F_REDEEM});
        if (s.chance(64)) r.push_back({key1(PSBT_IN_WITNESSSCRIPT), small_script(s), F_WSCRIPT});
        for (unsigned k = unsigned(s.index(3)); k > 0; --k) r.push_back({keyd(PSBT_IN_BIP32_DERIVATION, s.boolean() ? g.comp[(i + 2 * k) % 6] : g.uncomp[(i + 2 * k) % 6]), keypath_value(s), F_BIP32});
        if (s.chance(40)) r.push_back({key1(PSBT_IN_SCRIPTSIG), small_script(s), F_FINAL_SIG});
        if (s.chance(40)) { W w; unsigned n = unsigned(s.index(3)); w.cs(n); for (unsigned k = 0; k < n; ++k) w.var(s.bytes(s.index(5))); r.push_back({key1(PSBT_IN_SCRIPTWITNESS), w.b, F_FINAL_WIT}); }
        if (s.chance(40)) r.push_back({keyd(PSBT_IN_RIPEMD160, hash_n(s, 20)), s.bytes(s.index(6)), F_RIPEMD});
        if (s.chance(40)) r.push_back({keyd(PSBT_IN_SHA256, hash_n(s, 32)), s.bytes(s.index(6)), F_SHA256});
        if (s.chance(40)) r.push_back({keyd(PSBT_IN_HASH160, hash_n(s, 20)), s.bytes(s.index(6)), F_HASH160});
        if (s.chance(40)) r.push_back({keyd(PSBT_IN_HASH256, hash_n(s, 32)), s.bytes(s.index(6)), F_HASH256});
        if (gi.v2) {
            r.push_back({key1(PSBT_IN_PREVIOUS_TXID), tins[i].txid, F_REQUIRED});
            r.push_back({key1(PSBT_IN_OUTPUT_INDEX), le32b(tins[i].n), F_REQUIRED});
            if (s.chance(128)) r.push_back({key1(PSBT_IN_SEQUENCE), le32b(tins[i].seq), F_SEQUENCE});
            unsigned lt = unsigned(s.index(4)); // none / time / height / both
            if (lt & 1) r.push_back({key1(PSBT_IN_REQUIRED_TIME_LOCKTIME), le32b(s.pick<uint32_t>({500000000, 500000001, 1700000000, 0xffffffffu})), F_TIME_LT});
            if (lt & 2) r.push_back({key1(PSBT_IN_REQUIRED_HEIGHT_LOCKTIME), le32b(s.pick<uint32_t>({1, 2, 800000, 499999999})), F_HEIGHT_LT});
        }
        if (s.chance(40)) { Bytes sig(64, uint8_t(0x31 + i)); if (s.boolean()) sig.push_back(s.pick<uint8_t>({1, 0x83})); r.push_back({key1(PSBT_IN_TAP_KEY_SIG), sig, F_TAP_KEY_SIG}); }
        for (unsigned k = unsigned(s.index(3)); k > 0; --k) {
            Bytes sig(64, uint8_t(0x41 + k)); if (s.boolean()) sig.push_back(1);
            r.push_back({keyd(PSBT_IN_TAP_SCRIPT_SIG, cat({g.xonly[(i + k) % 6], hash_n(s, 32)})), sig, F_TAP_SCRIPT_SIG});
        }
        for (unsigned k = unsigned(s.index(3)); k > 0; --k) {
            Bytes control = cat({{uint8_t(0xc0 | s.index(2))}, g.xonly[(k + i) % 6]});
            for (unsigned d = unsigned(s.index(3)); d > 0; --d) control = cat({control, hash_n(s, 32)});
            Bytes val = cat({s.chance(200) ? Bytes{0x51} : small_script(s), {uint8_t(s.pick<uint8_t>({0xc0, 0xc2, 0x00}))}});
            r.push_back({keyd(PSBT_IN_TAP_LEAF_SCRIPT, control), val, F_TAP_LEAF});
        }
        for (unsigned k = unsigned(s.index(3)); k > 0; --k) {
            W v; unsigned nh = unsigned(s.index(3)); v.cs(nh);
            for (unsigned h = 0; h < nh; ++h) v.raw(hash_n(s, 32)); // may contain duplicates: decoded as a set
            v.raw(keypath_value(s));
            r.push_back({keyd(PSBT_IN_TAP_BIP32_DERIVATION, g.xonly[(i + 3 * k) % 6]), v.b, F_TAP_BIP32});
        }
        if (s.chance(40)) r.push_back({key1(PSBT_IN_TAP_INTERNAL_KEY), g.xonly[s.index(6)], F_TAP_IKEY});
        if (s.chance(40)) r.push_back({key1(PSBT_IN_TAP_MERKLE_ROOT), hash_n(s, 32), F_TAP_ROOT});
        if (s.chance(32)) { Bytes v; for (unsigned k = unsigned(s.index(4)); k > 0; --k) v = cat({v, g.comp[(k + i) % 6]}); r.push_back({keyd(PSBT_IN_MUSIG2_PARTICIPANT_PUBKEYS, g.comp[s.index(6)]), v, F_MUSIG_PART}); }
        for (unsigned k = unsigned(s.chance(32) ? 1 + s.index(2) : 0); k > 0; --k) {
            Bytes kd = cat({g.comp[(k + i) % 6], g.comp[s.index(2)]}); if (s.boolean()) kd = cat({kd, hash_n(s, 32)});
            r.push_back({keyd(PSBT_IN_MUSIG2_PUB_NONCE, kd), Bytes(66, uint8_t(0x61 + k)), F_MUSIG_NONCE});
        }
        for (unsigned k = unsigned(s.chance(32) ? 1 + s.index(2) : 0); k > 0; --k) {
            Bytes kd = cat({g.comp[(k + i) % 6], g.comp[s.index(2)]}); if (s.boolean()) kd = cat({kd, hash_n(s, 32)});
            r.push_back({keyd(PSBT_IN_MUSIG2_PARTIAL_SIG, kd), Bytes(32, uint8_t(0x71 + k)), F_MUSIG_PSIG});
        }
        for (unsigned k = unsigned(s.index(3)); k > 0; --k) r.push_back({proprietary_key(s), s.bytes(s.index(5)), F_IN_PROP});
        for (unsigned k = unsigned(s.index(3)); k > 0; --k) r.push_back({unknown_key(s, {0x09, 0x19, 0x1d, 0x40, 0xfb}), s.bytes(s.index(5)), F_IN_UNKNOWN});
        m.ins.push_back(std::move(r));
    }
    // ---- outputs
    for (unsigned i = 0; i < gi.nout; ++i) {
        RMap r;
        if (s.chance(64)) r.push_back({key1(PSBT_OUT_REDEEMSCRIPT), small_script(s), F_OUT_REDEEM});
        if (s.chance(64)) r.push_back({key1(PSBT_OUT_WITNESSSCRIPT), small_script(s), F_OUT_WSCRIPT});
        for (unsigned k = unsigned(s.index(3)); k > 0; --k) r.push_back({keyd(PSBT_OUT_BIP32_DERIVATION, g.comp[(i + k) % 6]), keypath_value(s), F_OUT_BIP32});
        if (gi.v2) {
            r.push_back({key1(PSBT_OUT_AMOUNT), W{}.le64(uint64_t(touts[i].amount)).b, F_REQUIRED});
            r.push_back({key1(PSBT_OUT_SCRIPT), touts[i].spk, F_REQUIRED});
        }
        if (s.chance(48)) r.push_back({key1(PSBT_OUT_TAP_INTERNAL_KEY), g.xonly[s.index(6)], F_OUT_TAP_IKEY});
        if (s.chance(48)) {
            // well-formed depth-first tree shapes: single leaf at depth 0, two leaves at depth 1, or 1,2,2
            static const std::vector<std::vector<uint8_t>> SHAPES = {{0}, {1, 1}, {1, 2, 2}, {2, 2, 1}, {2, 2, 2, 2}};
            W v;
            for (uint8_t d : s.pick(SHAPES)) { v.u8(d); v.u8(s.pick<uint8_t>({0xc0, 0xc2})); v.var(small_script(s)); }
            r.push_back({key1(PSBT_OUT_TAP_TREE), v.b, F_OUT_TAP_TREE});
        }
        for (unsigned k = unsigned(s.index(3)); k > 0; --k) {
            W v; unsigned nh = unsigned(s.index(3)); v.cs(nh);
            for (unsigned h = 0; h < nh; ++h) v.raw(hash_n(s, 32));
            v.raw(keypath_value(s));
            r.push_back({keyd(PSBT_OUT_TAP_BIP32_DERIVATION, g.xonly[(i + 2 * k) % 6]), v.b, F_OUT_TAP_BIP32});
        }
        if (s.chance(32)) { Bytes v; for (unsigned k = unsigned(s.index(4)); k > 0; --k) v = cat({v, g.comp[(k + i) % 6]}); r.push_back({keyd(PSBT_OUT_MUSIG2_PARTICIPANT_PUBKEYS, g.comp[s.index(6)]), v, F_OUT_MUSIG}); }
        for (unsigned k = unsigned(s.index(3)); k > 0; --k) r.push_back({proprietary_key(s), s.bytes(s.index(5)), F_OUT_PROP});
        for (unsigned k = unsigned(s.index(3)); k > 0; --k) r.push_back({unknown_key(s, {0x09, 0x0a, 0x40, 0xfb}), s.bytes(s.index(5)), F_OUT_UNKNOWN});
        m.outs.push_back(std::move(r));
    }
    // drop records whose key repeats inside a map (the generator may pick the same key twice; duplicates are an *injected* fault only)
    auto dedupe = [](RMap& mp) {
        RMap out;
        for (auto& r : mp) if (std::none_of(out.begin(), out.end(), [&](const Rec& o) { return o.key == r.key; })) out.push_back(r);
        mp = std::move(out);
    };
    dedupe(m.global); for (auto& r : m.ins) dedupe(r); for (auto& r : m.outs) dedupe(r);
    // record order inside a map is free: rotate
    auto rotate = [&](RMap& mp) { if (mp.size() > 1 && s.chance(100)) std::rotate(mp.begin(), mp.begin() + s.index(mp.size()), mp.end()); };
    rotate(m.global); for (auto& r : m.ins) rotate(r); for (auto& r : m.outs) rotate(r);

    // ---- injected faults (must be rejected or, if accepted, still obey the properties)
    if (s.chance(24)) {
        gi.injected_invalid = true;
        RMap* mp = &m.global;
        if (!m.ins.empty() && s.boolean()) mp = &m.ins[s.index(m.ins.size())];
        else if (!m.outs.empty() && s.boolean()) mp = &m.outs[s.index(m.outs.size())];
        switch (s.index(6)) {
        case 0: if (!mp->empty()) mp->push_back((*mp)[s.index(mp->size())]); break;                 // duplicate key
        case 1: if (!mp->empty()) mp->erase(mp->begin() + s.index(mp->size())); break;              // maybe a required record is gone
        case 2: if (!mp->empty()) { auto& r = (*mp)[s.index(mp->size())]; r.val.push_back(0); } break; // value one byte too long
        case 3: if (!mp->empty()) { auto& r = (*mp)[s.index(mp->size())]; if (!r.val.empty()) r.val.pop_back(); } break;
        case 4: mp->push_back({key1(gi.v2 ? PSBT_GLOBAL_UNSIGNED_TX : PSBT_IN_PREVIOUS_TXID), Bytes(32, 1), F_REQUIRED}); break; // field of the other version
        case 5: m.global.push_back({key1(PSBT_GLOBAL_VERSION), le32b(s.pick<uint32_t>({1, 3})), F_REQUIRED}); break;
        }
    }
    return m;
}

// ------------------------------------------------------------------------------------------------ own structural comparison (field walker -> canonical text)
enum DumpMode { FULL, ROUNDTRIP };

std::string hx(std::span<const unsigned char> v) { return HexStr(v); }
std::string origin_str(const KeyOriginInfo& o)
{
    std::string r = HexStr(o.fingerprint) + "/";
    for (uint32_t p : o.path) r += std::to_string(p) + ".";
    return r;
}
template <typename T>
std::string ser_hex(const T& obj)
{
    std::vector<unsigned char> v;
    VectorWriter w{v, 0};
    w << obj;
    return HexStr(v);
}

void dump_prop(std::ostringstream& o, const std::set<PSBTProprietary>& ps)
{
    for (auto& p : ps) o << " prop[" << hx(p.key) << "]=" << hx(p.value) << "/id=" << hx(p.identifier) << "/sub=" << p.subtype;
}
void dump_unknown(std::ostringstream& o, const std::map<std::vector<unsigned char>, std::vector<unsigned char>>& u)
{
    for (auto& [k, v] : u) o << " unk[" << hx(k) << "]=" << hx(v);
}
void dump_tap_bip32(std::ostringstream& o, const std::map<XOnlyPubKey, std::pair<std::set<uint256>, KeyOriginInfo>>& m)
{
    for (auto& [k, v] : m) { o << " tapbip32[" << hx(k) << "]="; for (auto& h : v.first) o << h.ToString() << ","; o << origin_str(v.second); }
}
void dump_musig_part(std::ostringstream& o, const std::map<CPubKey, std::vector<CPubKey>>& m)
{
    for (auto& [k, v] : m) { o << " musigpart[" << hx(k) << "]="; for (auto& p : v) o << hx(p) << ","; }
}

std::string dump_input(const PSBTInput& in, DumpMode mode)
{
    std::ostringstream o;
    o << "IN v" << in.GetVersion() << " prev=" << in.prev_txid.ToString() << ":" << in.prev_out;
    if (in.sequence) o << " seq=" << *in.sequence;
    if (in.time_locktime) o << " tlt=" << *in.time_locktime;
    if (in.height_locktime) o << " hlt=" << *in.height_locktime;
    if (in.non_witness_utxo) o << " nwu=" << (mode == FULL ? ser_hex(TX_WITH_WITNESS(*in.non_witness_utxo)) : ser_hex(TX_NO_WITNESS(*in.non_witness_utxo)));
    // a witness_utxo with the "null" amount -1 is indistinguishable from an absent one in the data model
    if (!in.witness_utxo.IsNull()) o << " wu=" << in.witness_utxo.nValue << ":" << hx(in.witness_utxo.scriptPubKey);
    o << " fsig=" << hx(in.final_script_sig) << " fwit=";
    for (auto& it : in.final_script_witness.stack) o << hx(it) << ",";
    // Documented serializer behaviour: once an input carries final scripts, the signer-stage fields are not written any more
    // (BIP174: the finalizer must clear them). The round-trip comparison follows that; Merge comparisons (FULL) do not.
    const bool finalized = !in.final_script_sig.empty() || !in.final_script_witness.IsNull();
    if (mode == FULL || !finalized) {
        for (auto& [id, sp] : in.partial_sigs) o << " psig[" << hx(sp.first) << "]=" << hx(sp.second) << "/id=" << id.ToString();
        if (in.sighash_type) o << " sighash=" << *in.sighash_type;
        o << " redeem=" << hx(in.redeem_script) << " wscript=" << hx(in.witness_script);
        for (auto& [pk, org] : in.hd_keypaths) o << " bip32[" << hx(pk) << "]=" << origin_str(org);
        for (auto& [h, p] : in.ripemd160_preimages) o << " ripemd[" << h.ToString() << "]=" << hx(p);
        for (auto& [h, p] : in.sha256_preimages) o << " sha256[" << h.ToString() << "]=" << hx(p);
        for (auto& [h, p] : in.hash160_preimages) o << " hash160[" << h.ToString() << "]=" << hx(p);
        for (auto& [h, p] : in.hash256_preimages) o << " hash256[" << h.ToString() << "]=" << hx(p);
        o << " tapkeysig=" << hx(in.m_tap_key_sig);
        for (auto& [kl, sig] : in.m_tap_script_sigs) o << " tapsig[" << hx(kl.first) << "," << kl.second.ToString() << "]=" << hx(sig);
        for (auto& [leaf, cbs] : in.m_tap_scripts) { o << " tapleaf[" << hx(leaf.first) << "," << leaf.second << "]="; for (auto& c : cbs) o << hx(c) << ","; }
        dump_tap_bip32(o, in.m_tap_bip32_paths);
        o << " tapikey=" << hx(in.m_tap_internal_key) << " taproot=" << in.m_tap_merkle_root.ToString();
        dump_musig_part(o, in.m_musig2_participants);
        for (auto& [kl, mp] : in.m_musig2_pubnonces) { o << " musignonce[" << hx(kl.first) << "," << kl.second.ToString() << "]="; for (auto& [p, n] : mp) o << hx(p) << ":" << hx(n) << ","; }
        for (auto& [kl, mp] : in.m_musig2_partial_sigs) { o << " musigpsig[" << hx(kl.first) << "," << kl.second.ToString() << "]="; for (auto& [p, n] : mp) o << hx(p) << ":" << n.ToString() << ","; }
    }
    dump_prop(o, in.m_proprietary);
    dump_unknown(o, in.unknown);
    return o.str();
}

std::string dump_output(const PSBTOutput& out)
{
    std::ostringstream o;
    o << "OUT v" << out.GetVersion() << " amount=" << out.amount << " script=" << hx(out.script) << " redeem=" << hx(out.redeem_script) << " wscript=" << hx(out.witness_script);
    for (auto& [pk, org] : out.hd_keypaths) o << " bip32[" << hx(pk) << "]=" << origin_str(org);
    o << " tapikey=" << hx(out.m_tap_internal_key) << " taptree=";
    for (auto& [d, v, sc] : out.m_tap_tree) o << int(d) << "/" << int(v) << "/" << hx(sc) << ",";
    dump_tap_bip32(o, out.m_tap_bip32_paths);
    dump_musig_part(o, out.m_musig2_participants);
    dump_prop(o, out.m_proprietary);
    dump_unknown(o, out.unknown);
    return o.str();
}

std::string dump_psbt(const PartiallySignedTransaction& p, DumpMode mode)
{
    std::ostringstream o;
    o << "PSBT v" << p.GetVersion() << " txver=" << p.tx_version;
    if (p.fallback_locktime) o << " fallback=" << *p.fallback_locktime;
    if (p.m_tx_modifiable) o << " modifiable=" << p.m_tx_modifiable->to_ulong();
    for (auto& [org, xs] : p.m_xpubs) for (auto& x : xs) { unsigned char buf[BIP32_EXTKEY_WITH_VERSION_SIZE]; x.EncodeWithVersion(buf); o << " xpub[" << HexStr(buf) << "]=" << origin_str(org); }
    dump_prop(o, p.m_proprietary);
    dump_unknown(o, p.unknown);
    o << "\n";
    for (auto& in : p.inputs) o << dump_input(in, mode) << "\n";
    for (auto& out : p.outputs) o << dump_output(out) << "\n";
    return o.str();
}

std::vector<unsigned char> ser_psbt(const PartiallySignedTransaction& p)
{
    std::vector<unsigned char> v;
    VectorWriter w{v, 0};
    w << p;
    return v;
}

// ------------------------------------------------------------------------------------------------ BIP370 locktime reference
/** BIP370 "Determining Lock Time": only inputs with a required locktime constrain the choice; if all of them allow a height, the
 *  largest required height is used (height wins when both kinds are possible); else if all allow a time, the largest required time;
 *  else the locktime cannot be determined. Without any requirement: fallback locktime, or 0 when absent. */
std::optional<uint32_t> ref_locktime(const PartiallySignedTransaction& p, std::string& pattern)
{
    bool any = false, all_height = true, all_time = true;
    uint32_t max_h = 0, max_t = 0;
    for (auto& in : p.inputs) {
        bool h = in.height_locktime.has_value(), t = in.time_locktime.has_value();
        if (!h && !t) continue;
        any = true;
        if (!h) all_height = false; else max_h = std::max(max_h, *in.height_locktime);
        if (!t) all_time = false; else max_t = std::max(max_t, *in.time_locktime);
    }
    if (!any) { pattern = p.fallback_locktime ? "fallback" : "zero"; return p.fallback_locktime.value_or(0); }
    if (all_height) { pattern = all_time ? "height-preferred-over-time" : "height"; return max_h; }
    if (all_time) { pattern = "time"; return max_t; }
    pattern = "conflict";
    return std::nullopt;
}

// ------------------------------------------------------------------------------------------------ shares
template <typename C>
void split_container(const C& src, const std::vector<C*>& dst, verif::Src& s, unsigned& nfields)
{
    for (auto& e : src) {
        ++nfields;
        size_t a = s.index(dst.size());
        dst[a]->insert(e);
        if (s.chance(32)) dst[s.index(dst.size())]->insert(e); // an identical copy elsewhere does not conflict
    }
}
template <typename K, typename IM>
void split_nested(const std::map<K, IM>& src, const std::vector<std::map<K, IM>*>& dst, verif::Src& s, unsigned& nfields)
{
    for (auto& [k, inner] : src) for (auto& e : inner) { ++nfields; (*dst[s.index(dst.size())])[k].insert(e); }
}

/** Remove every optional (non-identity) field. Identity = what defines "the same transaction" for Merge (unsigned tx incl. the
 *  fields that determine the locktime) plus tx_modifiable (merged by AND/OR, not by union). */
PartiallySignedTransaction skeleton(const PartiallySignedTransaction& p)
{
    PartiallySignedTransaction q = p;
    q.m_xpubs.clear(); q.unknown.clear(); q.m_proprietary.clear();
    for (auto& in : q.inputs) {
        auto keep_seq = in.sequence; auto t = in.time_locktime; auto h = in.height_locktime;
        PSBTInput fresh(in.GetVersion(), in.prev_txid, in.prev_out, in.GetVersion() == 0 ? keep_seq : std::nullopt);
        fresh.time_locktime = t; fresh.height_locktime = h;
        in = fresh;
    }
    for (auto& out : q.outputs) out = PSBTOutput(out.GetVersion(), out.amount, out.script);
    return q;
}

} // namespace

VERIF_TARGET(c47_psbt, init, 32, 700,
             "PSBT bytes written by an independent encoder from a structured model: v0 or v2, 0-3 inputs/outputs, every input/output/global field type "
             "(utxos, partial sigs, sighash, scripts, bip32, final scripts, 4 preimage kinds, taproot and MuSig2 fields, xpubs, proprietary/unknown records, v2 "
             "sequence and required time/height locktimes in all combinations, fallback locktime, modifiable flags), rotated record order, ~10% with an injected "
             "fault, ~15% byte-mutated afterwards; accepted PSBTs are round-tripped, merged with themselves, split into 2-3 field-disjoint shares and recombined in "
             "two orders, and the v2 locktime is compared with an own BIP370 reference. non-trivial = accepted PSBT with >= 3 distinct optional field kinds; "
             "distinct = by (version, nin, nout, field-kind set, locktime pattern)")
{
    GenInfo gi;
    Model m = gen_model(s, gi);
    Bytes raw = encode_model(m);
    if (s.chance(40)) {
        gi.mutated = true;
        for (unsigned k = 1 + unsigned(s.index(3)); k > 0 && !raw.empty(); --k) {
            size_t pos = s.index(raw.size());
            switch (s.index(5)) {
            case 0: raw[pos] ^= uint8_t(1u << s.index(8)); break;
            case 1: raw[pos] = uint8_t(s.range<unsigned>(0, 255)); break;
            case 2: raw.erase(raw.begin() + pos); break;
            case 3: raw.insert(raw.begin() + pos, uint8_t(s.range<unsigned>(0, 255))); break;
            case 4: raw[pos] = s.pick<uint8_t>({0x00, 0x01, 0xfc, 0xfd, 0xff}); break;
            }
        }
    }
    st.note("v", gi.v2 ? 2 : 0, " nin=", gi.nin, " nout=", gi.nout, " bytes=", raw.size(), gi.injected_invalid ? " injected-fault" : "", gi.mutated ? " byte-mutated" : "");

    auto res = DecodeRawPSBT(MakeByteSpan(raw));
    st.cls(gi.v2 ? "gen:v2" : "gen:v0");
    if (gi.injected_invalid) st.cls("gen:injected-fault");
    if (gi.mutated) st.cls("gen:byte-mutated");
    if (!res) {
        st.cls("rejected");
        st.note("rejected: ", util::ErrorString(res).original);
        // a model without injected fault and without mutation is a valid PSBT by construction: track (not an oracle: the statement is about accepted PSBTs)
        if (!gi.injected_invalid && !gi.mutated) { st.cls("rejected-though-generated-valid"); st.cls("reject-reason:" + util::ErrorString(res).original.substr(0, 48)); }
        st.mix(uint64_t(0xdead)); st.mix(uint64_t(gi.v2));
        return;
    }
    const PartiallySignedTransaction p = *res;
    st.cls("accepted");
    st.cls(p.GetVersion() == 2 ? "accepted:v2" : "accepted:v0");
    if (gi.mutated) st.cls("accepted:byte-mutated");
    if (gi.injected_invalid) st.cls("accepted:injected-fault");

    // ---------------------------------------------------------------- round trip
    const std::vector<unsigned char> e1 = ser_psbt(p);
    auto res2 = DecodeRawPSBT(MakeByteSpan(e1));
    st.steps++;
    VCHECK(bool(res2), "c47.roundtrip", "re-encoded PSBT is rejected:", res2 ? "" : util::ErrorString(res2).original, "e1=", HexStr(e1));
    const PartiallySignedTransaction p2 = *res2;
    const std::string d1 = dump_psbt(p, ROUNDTRIP), d2 = dump_psbt(p2, ROUNDTRIP);
    st.steps++;
    if (d1 != d2) st.note("BEFORE: ", d1, " AFTER: ", d2);
    VCHECK(d1 == d2, "c47.roundtrip", "content changed by encode/decode; before=", d1, "after=", d2);
    const std::vector<unsigned char> e2 = ser_psbt(p2);
    st.steps++;
    VCHECK(e1 == e2, "c47.roundtrip", "second encoding is not a byte fixpoint", HexStr(e1), HexStr(e2));

    // which optional fields survived decoding (labels + non-triviality), from the model kinds of an unmutated case or from the struct
    uint64_t kinds = 0;
    auto have = [&](int k, bool b) { if (b) kinds |= uint64_t{1} << k; };
    bool carve_final = false, nwu_witness = false;
    for (auto& in : p.inputs) {
        have(F_NWU, bool(in.non_witness_utxo)); have(F_WU, !in.witness_utxo.IsNull()); have(F_PARTIAL_SIG, !in.partial_sigs.empty()); have(F_SIGHASH, in.sighash_type.has_value());
        have(F_REDEEM, !in.redeem_script.empty()); have(F_WSCRIPT, !in.witness_script.empty()); have(F_BIP32, !in.hd_keypaths.empty());
        have(F_FINAL_SIG, !in.final_script_sig.empty()); have(F_FINAL_WIT, !in.final_script_witness.IsNull()); have(F_RIPEMD, !in.ripemd160_preimages.empty());
        have(F_SHA256, !in.sha256_preimages.empty()); have(F_HASH160, !in.hash160_preimages.empty()); have(F_HASH256, !in.hash256_preimages.empty());
        have(F_SEQUENCE, p.GetVersion() == 2 && in.sequence.has_value()); have(F_TIME_LT, in.time_locktime.has_value()); have(F_HEIGHT_LT, in.height_locktime.has_value());
        have(F_TAP_KEY_SIG, !in.m_tap_key_sig.empty()); have(F_TAP_SCRIPT_SIG, !in.m_tap_script_sigs.empty()); have(F_TAP_LEAF, !in.m_tap_scripts.empty());
        have(F_TAP_BIP32, !in.m_tap_bip32_paths.empty()); have(F_TAP_IKEY, !in.m_tap_internal_key.IsNull()); have(F_TAP_ROOT, !in.m_tap_merkle_root.IsNull());
        have(F_MUSIG_PART, !in.m_musig2_participants.empty()); have(F_MUSIG_NONCE, !in.m_musig2_pubnonces.empty()); have(F_MUSIG_PSIG, !in.m_musig2_partial_sigs.empty());
        have(F_IN_PROP, !in.m_proprietary.empty()); have(F_IN_UNKNOWN, !in.unknown.empty());
        bool finalized = !in.final_script_sig.empty() || !in.final_script_witness.IsNull();
        if (finalized && dump_input(in, FULL) != dump_input(in, ROUNDTRIP)) carve_final = true;
        if (in.non_witness_utxo && in.non_witness_utxo->HasWitness()) nwu_witness = true;
    }
    for (auto& out : p.outputs) {
        have(F_OUT_REDEEM, !out.redeem_script.empty()); have(F_OUT_WSCRIPT, !out.witness_script.empty()); have(F_OUT_BIP32, !out.hd_keypaths.empty());
        have(F_OUT_TAP_IKEY, !out.m_tap_internal_key.IsNull()); have(F_OUT_TAP_TREE, !out.m_tap_tree.empty()); have(F_OUT_TAP_BIP32, !out.m_tap_bip32_paths.empty());
        have(F_OUT_MUSIG, !out.m_musig2_participants.empty()); have(F_OUT_PROP, !out.m_proprietary.empty()); have(F_OUT_UNKNOWN, !out.unknown.empty());
    }
    have(F_XPUB, !p.m_xpubs.empty()); have(F_FALLBACK, p.GetVersion() == 2 && p.fallback_locktime.has_value()); have(F_MODIFIABLE, p.m_tx_modifiable.has_value());
    have(F_G_PROP, !p.m_proprietary.empty()); have(F_G_UNKNOWN, !p.unknown.empty());
    for (int k = 0; k < F_COUNT; ++k) if (kinds >> k & 1) st.cls(std::string("field:") + FK_NAME[k]);
    if (carve_final) st.cls("finalized-input-with-signer-fields(not-serialized-by-design)");
    if (nwu_witness) st.cls("non-witness-utxo-with-witness(stripped-by-design)");

    // ---------------------------------------------------------------- BIP370 locktime
    std::string pattern = "v0";
    if (p.GetVersion() == 2) {
        std::optional<uint32_t> ref = ref_locktime(p, pattern);
        std::optional<uint32_t> got = p.ComputeTimeLock();
        st.steps++;
        VCHECK(ref == got, "c47.locktime-reference", "pattern", pattern, "reference", ref ? std::to_string(*ref) : "undetermined", "ComputeTimeLock", got ? std::to_string(*got) : "undetermined");
        auto utx = p.GetUnsignedTx();
        st.steps++;
        VCHECK(utx.has_value() == ref.has_value() && (!utx || utx->nLockTime == *ref), "c47.locktime-reference", "GetUnsignedTx locktime disagrees with the reference, pattern", pattern);
        st.cls("locktime:" + pattern);
        st.note("locktime pattern ", pattern, " = ", ref ? std::to_string(*ref) : "undetermined");
    }

    // ---------------------------------------------------------------- Merge(p, p) == p
    {
        PartiallySignedTransaction q = p;
        bool ok = q.Merge(p);
        st.steps++;
        VCHECK(dump_psbt(q, FULL) == dump_psbt(p, FULL), "c47.merge-self", "Merge(p,p) changed p (returned", ok, ")");
        st.cls(ok ? "merge-self:accepted" : "merge-self:refused");
    }

    // ---------------------------------------------------------------- disjoint shares, two orders
    unsigned nfields = 0;
    bool shares_done = false, with_sighash = false;
    if (p.GetUniqueID().has_value()) {
        const size_t k = 2 + s.index(2);
        std::vector<PartiallySignedTransaction> sh(k, skeleton(p));
        auto ptrs = [&](auto getter) { std::vector<std::remove_reference_t<decltype(getter(sh[0]))>*> v; for (auto& x : sh) v.push_back(&getter(x)); return v; };
        auto single = [&](bool present, auto assign) { if (!present) return; ++nfields; assign(sh[s.index(k)]); if (s.chance(32)) assign(sh[s.index(k)]); };
        // globals
        for (auto& [org, xs] : p.m_xpubs) for (auto& x : xs) { ++nfields; sh[s.index(k)].m_xpubs[org].insert(x); }
        split_container(p.unknown, ptrs([](auto& x) -> auto& { return x.unknown; }), s, nfields);
        split_container(p.m_proprietary, ptrs([](auto& x) -> auto& { return x.m_proprietary; }), s, nfields);
        for (size_t i = 0; i < p.inputs.size(); ++i) {
            const PSBTInput& in = p.inputs[i];
            single(bool(in.non_witness_utxo), [&](auto& t) { t.inputs[i].non_witness_utxo = in.non_witness_utxo; });
            single(!in.witness_utxo.IsNull(), [&](auto& t) { t.inputs[i].witness_utxo = in.witness_utxo; });
            single(!in.redeem_script.empty(), [&](auto& t) { t.inputs[i].redeem_script = in.redeem_script; });
            single(!in.witness_script.empty(), [&](auto& t) { t.inputs[i].witness_script = in.witness_script; });
            single(!in.final_script_sig.empty(), [&](auto& t) { t.inputs[i].final_script_sig = in.final_script_sig; });
            single(!in.final_script_witness.IsNull(), [&](auto& t) { t.inputs[i].final_script_witness = in.final_script_witness; });
            single(!in.m_tap_key_sig.empty(), [&](auto& t) { t.inputs[i].m_tap_key_sig = in.m_tap_key_sig; });
            single(!in.m_tap_internal_key.IsNull(), [&](auto& t) { t.inputs[i].m_tap_internal_key = in.m_tap_internal_key; });
            single(!in.m_tap_merkle_root.IsNull(), [&](auto& t) { t.inputs[i].m_tap_merkle_root = in.m_tap_merkle_root; });
            single(p.GetVersion() == 2 && in.sequence.has_value(), [&](auto& t) { t.inputs[i].sequence = in.sequence; });
            if (in.sighash_type.has_value()) with_sighash = true;
            single(in.sighash_type.has_value(), [&](auto& t) { t.inputs[i].sighash_type = in.sighash_type; });
            split_container(in.partial_sigs, ptrs([i](auto& x) -> auto& { return x.inputs[i].partial_sigs; }), s, nfields);
            split_container(in.hd_keypaths, ptrs([i](auto& x) -> auto& { return x.inputs[i].hd_keypaths; }), s, nfields);
            split_container(in.ripemd160_preimages, ptrs([i](auto& x) -> auto& { return x.inputs[i].ripemd160_preimages; }), s, nfields);
            split_container(in.sha256_preimages, ptrs([i](auto& x) -> auto& { return x.inputs[i].sha256_preimages; }), s, nfields);
            split_container(in.hash160_preimages, ptrs([i](auto& x) -> auto& { return x.inputs[i].hash160_preimages; }), s, nfields);
            split_container(in.hash256_preimages, ptrs([i](auto& x) -> auto& { return x.inputs[i].hash256_preimages; }), s, nfields);
            split_container(in.m_tap_script_sigs, ptrs([i](auto& x) -> auto& { return x.inputs[i].m_tap_script_sigs; }), s, nfields);
            split_container(in.m_tap_scripts, ptrs([i](auto& x) -> auto& { return x.inputs[i].m_tap_scripts; }), s, nfields);
            split_container(in.m_tap_bip32_paths, ptrs([i](auto& x) -> auto& { return x.inputs[i].m_tap_bip32_paths; }), s, nfields);
            split_container(in.m_musig2_participants, ptrs([i](auto& x) -> auto& { return x.inputs[i].m_musig2_participants; }), s, nfields);
            split_nested(in.m_musig2_pubnonces, ptrs([i](auto& x) -> auto& { return x.inputs[i].m_musig2_pubnonces; }), s, nfields);
            split_nested(in.m_musig2_partial_sigs, ptrs([i](auto& x) -> auto& { return x.inputs[i].m_musig2_partial_sigs; }), s, nfields);
            split_container(in.unknown, ptrs([i](auto& x) -> auto& { return x.inputs[i].unknown; }), s, nfields);
            split_container(in.m_proprietary, ptrs([i](auto& x) -> auto& { return x.inputs[i].m_proprietary; }), s, nfields);
        }
        for (size_t i = 0; i < p.outputs.size(); ++i) {
            const PSBTOutput& out = p.outputs[i];
            single(!out.redeem_script.empty(), [&](auto& t) { t.outputs[i].redeem_script = out.redeem_script; });
            single(!out.witness_script.empty(), [&](auto& t) { t.outputs[i].witness_script = out.witness_script; });
            single(!out.m_tap_internal_key.IsNull(), [&](auto& t) { t.outputs[i].m_tap_internal_key = out.m_tap_internal_key; });
            single(!out.m_tap_tree.empty(), [&](auto& t) { t.outputs[i].m_tap_tree = out.m_tap_tree; });
            split_container(out.hd_keypaths, ptrs([i](auto& x) -> auto& { return x.outputs[i].hd_keypaths; }), s, nfields);
            split_container(out.m_tap_bip32_paths, ptrs([i](auto& x) -> auto& { return x.outputs[i].m_tap_bip32_paths; }), s, nfields);
            split_container(out.m_musig2_participants, ptrs([i](auto& x) -> auto& { return x.outputs[i].m_musig2_participants; }), s, nfields);
            split_container(out.unknown, ptrs([i](auto& x) -> auto& { return x.outputs[i].unknown; }), s, nfields);
            split_container(out.m_proprietary, ptrs([i](auto& x) -> auto& { return x.outputs[i].m_proprietary; }), s, nfields);
        }
        // optionally send a share through its own encode/decode first (as a real combiner would receive it)
        if (s.chance(64)) {
            size_t j = s.index(k);
            auto r = DecodeRawPSBT(MakeByteSpan(ser_psbt(sh[j])));
            st.steps++;
            VCHECK(bool(r), "c47.roundtrip", "share does not decode after encoding");
            // only usable as a share if nothing was dropped by the documented serializer carve-outs
            if (dump_psbt(*r, FULL) == dump_psbt(sh[j], FULL)) { sh[j] = *r; st.cls("share-through-bytes"); }
        }
        std::vector<size_t> order(k);
        for (size_t i = 0; i < k; ++i) order[i] = i;
        std::vector<size_t> order2 = order;
        std::reverse(order2.begin(), order2.end());
        if (k == 3 && s.boolean()) std::swap(order2[0], order2[1]);
        auto combine = [&](const std::vector<size_t>& ord, std::string& out) {
            std::vector<PartiallySignedTransaction> v;
            for (size_t i : ord) v.push_back(sh[i]);
            auto c = CombinePSBTs(v);
            if (!c) return false;
            out = dump_psbt(*c, FULL);
            return true;
        };
        std::string a, b;
        bool oka = combine(order, a), okb = combine(order2, b);
        st.steps += 3;
        VCHECK(oka && okb, "c47.merge-union", "shares of the same transaction refused to combine", oka, okb);
        VCHECK(a == b, "c47.merge-union", "combining disjoint shares depends on the order; order1=", a, "order2=", b);
        const std::string full = dump_psbt(p, FULL);
        if (a != full) st.note("UNION: ", a, " ORIGINAL: ", full);
        VCHECK(a == full, "c47.merge-union", "combined shares do not contain exactly the fields of the original; combined=", a, "original=", full);
        shares_done = true;
        st.cls("shares-combined");
        st.cls(k == 2 ? "shares=2" : "shares=3");
        if (with_sighash) st.cls("shares-with-sighash");
    } else {
        st.cls("shares-skipped:locktime-undetermined");
    }

    // ---------------------------------------------------------------- accounting
    unsigned nk = unsigned(__builtin_popcountll(kinds));
    st.nontrivial = nk >= 3;
    if (shares_done && nfields >= 4) st.cls("shares>=4-fields");
    st.cls(nk >= 8 ? "kinds>=8" : nk >= 3 ? "kinds3-7" : "kinds<3");
    st.mix(uint64_t(p.GetVersion())); st.mix(uint64_t(p.inputs.size())); st.mix(uint64_t(p.outputs.size())); st.mix(kinds); st.mix(pattern);
    st.note("accepted: kinds=", nk, " split fields=", nfields);
}

// ------------------------------------------------------------------------------------------------ finalize + extract
namespace {
enum InKind { IK_P2WPKH, IK_P2PKH, IK_P2SH_P2WPKH, IK_P2TR, IK_P2PK, IK_WSH_MULTI, IK_SH_MULTI, IK_COUNT };
const char* IK_NAME[IK_COUNT] = {"p2wpkh", "p2pkh", "p2sh-p2wpkh", "p2tr", "p2pk", "p2wsh-multisig", "p2sh-multisig"};
}

VERIF_TARGET(c47_finalize, init, 24, 160,
             "a signable PSBT (v0 or v2) spending 1-3 harness-key outputs (P2WPKH, P2PKH, P2SH-P2WPKH, P2TR key path, P2PK, 2-of-3 multisig in P2WSH and P2SH) with "
             "witness and/or non-witness UTXOs, v2 required locktimes / fallback / sequences, random sighash type; two signers holding different key subsets sign "
             "copies (optionally passed through bytes), the copies are combined in random order, then FinalizeAndExtractPSBT. Checked only when it reports success: "
             "txid == txid of GetUnsignedTx() before finalization, every input passes VerifyScript(STANDARD) against the PSBT's UTXOs. "
             "non-trivial = extraction succeeded with >= 2 inputs or a multisig input; distinct = by (version, input kinds, sighash, locktime pattern, outcome)")
{
    const verif::KeyRing& ring = *g.ring;
    const uint32_t psbt_version = s.boolean() ? 2 : 0;
    unsigned nin = 1 + unsigned(s.index(3));
    unsigned nout = 1 + unsigned(s.index(2));
    CMutableTransaction mtx;
    mtx.version = 2;
    mtx.nLockTime = s.pick<uint32_t>({0, 5, 500000009});
    struct InSpec { int kind; unsigned key; CScript spk; CScript redeem, wscript; CAmount amount; CTransactionRef prev; uint32_t n; bool give_nwu, give_wu; };
    std::vector<InSpec> specs;
    FlatSigningProvider scripts_only; // public data every signer has
    for (unsigned i = 0; i < nin; ++i) {
        InSpec sp{};
        sp.kind = int(s.index(IK_COUNT));
        sp.key = unsigned(s.index(4));
        sp.amount = CAmount(10000 * (i + 1) + s.index(3));
        switch (sp.kind) {
        case IK_P2WPKH: sp.spk = ring.Script(verif::SpkType::P2WPKH, sp.key); break;
        case IK_P2PKH: sp.spk = ring.Script(verif::SpkType::P2PKH, sp.key); break;
        case IK_P2SH_P2WPKH: sp.spk = ring.Script(verif::SpkType::P2SH_P2WPKH, sp.key); break;
        case IK_P2TR: sp.spk = ring.Script(verif::SpkType::P2TR, sp.key); break;
        case IK_P2PK: sp.spk = ring.Script(verif::SpkType::P2PK, sp.key); break;
        case IK_WSH_MULTI: case IK_SH_MULTI: {
            CScript ms = CScript() << OP_2;
            for (unsigned k = 0; k < 3; ++k) ms << ToByteVector(ring.keys[(sp.key + k) % 8].GetPubKey());
            ms << OP_3 << OP_CHECKMULTISIG;
            if (sp.kind == IK_WSH_MULTI) { sp.wscript = ms; sp.spk = GetScriptForDestination(WitnessV0ScriptHash(ms)); }
            else { sp.redeem = ms; sp.spk = GetScriptForDestination(ScriptHash(ms)); }
            scripts_only.scripts[CScriptID(ms)] = ms;
            break;
        }
        }
        // previous transaction holding the output
        CMutableTransaction prev;
        prev.version = 2;
        prev.vin.emplace_back(COutPoint(Txid::FromUint256(uint256(uint8_t(0x21 + i))), 0));
        sp.n = uint32_t(s.index(2));
        for (uint32_t k = 0; k <= sp.n; ++k) prev.vout.emplace_back(k == sp.n ? sp.amount : CAmount(777), k == sp.n ? sp.spk : CScript() << OP_TRUE);
        sp.prev = MakeTransactionRef(prev);
        bool segwit = sp.kind == IK_P2WPKH || sp.kind == IK_P2SH_P2WPKH || sp.kind == IK_P2TR || sp.kind == IK_WSH_MULTI;
        unsigned u = unsigned(s.index(3));
        sp.give_nwu = !segwit || u != 1;
        sp.give_wu = segwit && u != 0;
        if (!segwit && s.chance(16)) { sp.give_nwu = false; sp.give_wu = true; } // legacy input with only a witness utxo: must not be signable
        CTxIn in(COutPoint(sp.prev->GetHash(), sp.n));
        in.nSequence = s.pick<uint32_t>({0xfffffffe, 0xffffffff, 0, 0xfffffffd});
        mtx.vin.push_back(in);
        specs.push_back(sp);
    }
    for (unsigned i = 0; i < nout; ++i) mtx.vout.emplace_back(CAmount(5000 + i), ring.Script(verif::SpkType::P2WPKH, i));

    PartiallySignedTransaction psbt(mtx, psbt_version);
    std::string pattern = "v0";
    if (psbt_version == 2) {
        if (s.boolean()) psbt.fallback_locktime.reset();
        for (unsigned i = 0; i < nin; ++i) {
            unsigned lt = unsigned(s.index(4));
            if (lt & 1) psbt.inputs[i].time_locktime = s.pick<uint32_t>({500000000, 1600000000});
            if (lt & 2) psbt.inputs[i].height_locktime = s.pick<uint32_t>({1, 700000});
            if (s.chance(64)) psbt.inputs[i].sequence.reset();
        }
        if (s.boolean()) psbt.m_tx_modifiable = std::bitset<8>(s.index(8));
        (void)ref_locktime(psbt, pattern);
    }
    for (unsigned i = 0; i < nin; ++i) {
        if (specs[i].give_nwu) psbt.inputs[i].non_witness_utxo = specs[i].prev;
        if (specs[i].give_wu) psbt.inputs[i].witness_utxo = specs[i].prev->vout[specs[i].n];
    }
    // two signers with complementary key subsets (for 2-of-3 multisig each one holds one of the first two keys); with some probability one key is nobody's
    FlatSigningProvider signer[2];
    unsigned withheld = s.chance(32) ? unsigned(s.index(8)) : 99;
    for (unsigned k = 0; k < 8; ++k) {
        if (k == withheld) continue;
        const CKey& key = ring.keys[k];
        CPubKey pk = key.GetPubKey();
        FlatSigningProvider& sg = signer[s.boolean() ? 1 : 0];
        sg.keys[pk.GetID()] = key;
    }
    for (auto& sg : signer) {
        sg.pubkeys = ring.provider.pubkeys;
        sg.scripts = ring.provider.scripts;
        sg.tr_trees = ring.provider.tr_trees;
        sg.Merge(FlatSigningProvider{scripts_only});
    }
    std::optional<int> sighash;
    switch (s.index(5)) {
    case 0: break;
    case 1: sighash = SIGHASH_ALL; break;
    case 2: sighash = SIGHASH_NONE | SIGHASH_ANYONECANPAY; break;
    case 3: sighash = SIGHASH_SINGLE; break;
    case 4: sighash = SIGHASH_ALL | SIGHASH_ANYONECANPAY; break;
    }
    std::vector<PartiallySignedTransaction> copies;
    for (int w = 0; w < 2; ++w) {
        PartiallySignedTransaction c = psbt;
        auto txdata = PrecomputePSBTData(c);
        if (txdata) {
            for (unsigned i = 0; i < nin; ++i) {
                common::PSBTFillOptions opt;
                opt.sighash_type = sighash;
                opt.finalize = s.chance(64); // a signer may finalize what it can complete alone
                (void)SignPSBTInput(signer[w], c, int(i), &*txdata, opt);
            }
        }
        if (s.chance(100)) {
            auto r = DecodeRawPSBT(MakeByteSpan(ser_psbt(c)));
            st.steps++;
            VCHECK(bool(r), "c47.roundtrip", "signed PSBT does not decode after encoding");
            c = *r;
            st.cls("signed-copy-through-bytes");
        }
        copies.push_back(std::move(c));
    }
    if (s.boolean()) std::swap(copies[0], copies[1]);
    auto combined = CombinePSBTs(copies);
    st.cls(psbt_version == 2 ? "v2" : "v0");
    st.cls("locktime:" + pattern);
    for (auto& sp : specs) st.cls(std::string("in:") + IK_NAME[sp.kind]);
    st.note("v", psbt_version, " nin=", nin, " sighash=", sighash ? std::to_string(*sighash) : "default", " locktime=", pattern, " withheld-key=", withheld);
    st.mix(uint64_t(psbt_version)); st.mix(pattern); st.mix(uint64_t(sighash.value_or(-1)));
    for (auto& sp : specs) st.mix(uint64_t(sp.kind));
    if (!combined) {
        // same transaction by construction, unless its locktime is undetermined
        st.steps++;
        VCHECK(pattern == "conflict", "c47.merge-union", "signed copies of the same transaction refused to combine");
        st.cls("combine-refused:locktime-undetermined");
        return;
    }
    PartiallySignedTransaction fin = *combined;
    std::optional<CMutableTransaction> before = fin.GetUnsignedTx();
    CMutableTransaction result;
    bool ok = FinalizeAndExtractPSBT(fin, result);
    if (!ok) {
        st.cls("not-extractable");
        st.mix(uint64_t(0));
        st.note("not extractable");
        return;
    }
    st.cls("extracted");
    st.steps++;
    VCHECK(before.has_value(), "c47.extract-txid", "extracted although the unsigned transaction is undetermined");
    st.steps++;
    {
        // The txid commits to scriptSigs, so for inputs with a non-empty final scriptSig (P2PKH, P2SH-wrapped) the statement can only mean
        // "the unsigned transaction with the final scripts filled in": compare after blanking the scriptSigs; directly when all are empty.
        CMutableTransaction blank = result;
        bool any_scriptsig = false;
        for (auto& in : blank.vin) { any_scriptsig |= !in.scriptSig.empty(); in.scriptSig.clear(); in.scriptWitness.SetNull(); }
        VCHECK(blank.GetHash() == before->GetHash(), "c47.extract-txid", "extracted tx (scriptSigs blanked) txid", blank.GetHash().ToString(), "unsigned tx txid", before->GetHash().ToString());
        if (!any_scriptsig) {
            VCHECK(result.GetHash() == before->GetHash(), "c47.extract-txid", "extracted txid", result.GetHash().ToString(), "unsigned tx txid", before->GetHash().ToString());
            st.cls("extracted:txid-equal(all-native-segwit)");
        }
        // and the PSBT still describes that transaction after finalization
        auto after = fin.GetUnsignedTx();
        VCHECK(after && after->GetHash() == before->GetHash(), "c47.extract-txid", "finalization changed the PSBT's unsigned transaction");
    }
    // the PSBT's own spent outputs
    std::vector<CTxOut> utxos;
    for (auto& in : fin.inputs) {
        CTxOut u;
        st.steps++;
        VCHECK(in.GetUTXO(u), "c47.extract-verify", "finalized input without a usable UTXO");
        utxos.push_back(u);
    }
    PrecomputedTransactionData txdata;
    txdata.Init(result, std::vector<CTxOut>(utxos), /*force=*/true);
    bool multisig = false;
    for (unsigned i = 0; i < result.vin.size(); ++i) {
        ScriptError err;
        MutableTransactionSignatureChecker checker(&result, i, utxos[i].nValue, txdata, MissingDataBehavior::FAIL);
        bool v = VerifyScript(result.vin[i].scriptSig, utxos[i].scriptPubKey, &result.vin[i].scriptWitness, STANDARD_SCRIPT_VERIFY_FLAGS, checker, &err);
        st.steps++;
        VCHECK(v, "c47.extract-verify", "input", i, IK_NAME[specs[i].kind], "of the extracted transaction fails script verification:", ScriptErrorString(err));
        // and it really spends what the generator put there
        VCHECK(utxos[i] == specs[i].prev->vout[specs[i].n], "c47.extract-verify", "PSBT UTXO differs from the generated previous output");
        if (specs[i].kind == IK_WSH_MULTI || specs[i].kind == IK_SH_MULTI) multisig = true;
    }
    st.nontrivial = nin >= 2 || multisig;
    if (multisig) st.cls("extracted:multisig");
    st.mix(uint64_t(1));
    st.note("extracted txid ", result.GetHash().ToString());
}

// ------------------------------------------------------------------------------------------------ regression target (replay-only stage)
// PSBTInput::Merge did not merge sighash_type (repaired by a "fix:" commit): combining {A with PSBT_IN_SIGHASH, B without} kept or lost the field
// depending on the order. The generated target covers the field too; this pins the minimal shape.
VERIF_TARGET(c47_merge_sighash, init, 4, 16,
             "regression shape: two PSBTs of the same transaction, only one carrying PSBT_IN_SIGHASH_TYPE on input 0, combined in both orders; "
             "oracle c47.merge-sighash-type: same result in any order, containing the field (replayed from corpus/C47/c47_merge_sighash/).")
{
    CMutableTransaction mtx;
    mtx.version = 2;
    mtx.vin.emplace_back(COutPoint(Txid::FromUint256(uint256(uint8_t(1 + s.index(3)))), 0));
    mtx.vout.emplace_back(CAmount(1000), CScript() << OP_TRUE);
    uint32_t ver = s.boolean() ? 2 : 0;
    PartiallySignedTransaction a(mtx, ver), b(mtx, ver);
    a.inputs[0].sighash_type = s.pick<int>({SIGHASH_ALL, SIGHASH_NONE, SIGHASH_SINGLE | SIGHASH_ANYONECANPAY});
    auto ab = CombinePSBTs({a, b});
    auto ba = CombinePSBTs({b, a});
    st.steps++;
    st.nontrivial = true;
    st.mix(uint64_t(ver));
    VCHECK(ab && ba, "c47.merge-sighash-type", "combine refused");
    VCHECK(dump_psbt(*ab, FULL) == dump_psbt(*ba, FULL), "c47.merge-sighash-type", "order dependent: a+b =", dump_psbt(*ab, FULL), " b+a =", dump_psbt(*ba, FULL));
    VCHECK(ab->inputs[0].sighash_type == a.inputs[0].sighash_type, "c47.merge-sighash-type", "combined PSBT lost the sighash type");
}

// PSBT with an attacker-chosen PSBT_IN_FINAL_SCRIPTSIG / FINAL_SCRIPTWITNESS: FillSignatureData marks the input complete, ProduceSignature returns
// early, FinalizePSBT reports success and FinalizeAndExtractPSBT hands out a transaction whose input does not verify. Known finding (known_findings.txt),
// replay-only stage with its own oracle id so that it cannot mask other c47.extract-verify failures.
VERIF_TARGET(c47_bogus_final, init, 4, 16,
             "known finding: a PSBT whose only input carries a bogus final scriptSig/scriptWitness; oracle c47.extract-verify-bogus-final: a transaction extracted "
             "by FinalizeAndExtractPSBT passes script verification against the PSBT's UTXO (replayed from corpus/C47/c47_bogus_final/).")
{
    const verif::KeyRing& ring = *g.ring;
    CMutableTransaction prev;
    prev.version = 2;
    prev.vin.emplace_back(COutPoint(Txid::FromUint256(uint256(uint8_t(7))), 0));
    const bool segwit = s.boolean();
    CScript spk = ring.Script(segwit ? verif::SpkType::P2WPKH : verif::SpkType::P2PKH, 0);
    prev.vout.emplace_back(CAmount(50000), spk);
    CMutableTransaction mtx;
    mtx.version = 2;
    mtx.vin.emplace_back(COutPoint(prev.GetHash(), 0));
    mtx.vout.emplace_back(CAmount(40000), ring.Script(verif::SpkType::P2WPKH, 1));
    PartiallySignedTransaction psbt(mtx, s.boolean() ? 2 : 0);
    psbt.inputs[0].non_witness_utxo = MakeTransactionRef(prev);
    if (segwit) { psbt.inputs[0].witness_utxo = prev.vout[0]; psbt.inputs[0].final_script_witness.stack = {{0x01}, {0x02}}; }
    else psbt.inputs[0].final_script_sig = CScript() << OP_TRUE;
    // through bytes, as it would arrive
    auto r = DecodeRawPSBT(MakeByteSpan(ser_psbt(psbt)));
    VCHECK(bool(r), "c47.harness", "demo PSBT does not decode");
    PartiallySignedTransaction fin = *r;
    CMutableTransaction result;
    bool ok = FinalizeAndExtractPSBT(fin, result);
    st.steps++;
    st.nontrivial = true;
    st.mix(uint64_t(segwit));
    st.cls(ok ? "extracted" : "not-extractable");
    if (!ok) return;
    CTxOut utxo;
    VCHECK(fin.inputs[0].GetUTXO(utxo), "c47.harness", "no utxo");
    PrecomputedTransactionData txdata;
    txdata.Init(result, std::vector<CTxOut>{utxo}, true);
    ScriptError err;
    MutableTransactionSignatureChecker checker(&result, 0, utxo.nValue, txdata, MissingDataBehavior::FAIL);
    bool v = VerifyScript(result.vin[0].scriptSig, utxo.scriptPubKey, &result.vin[0].scriptWitness, STANDARD_SCRIPT_VERIFY_FLAGS, checker, &err);
    VCHECK(v, "c47.extract-verify-bogus-final", "FinalizeAndExtractPSBT returned true for a bogus final script; extracted input fails:", ScriptErrorString(err));
}
