// C16 — The node recovers a consistent chainstate after a crash at any point (engine E3, DESIGN.md §3.5).
// Three targets, driven by bin/crashsim/c16_worker.py:
//   c16_template : builds an on-disk regtest datadir with a 104-block base chain and shuts down cleanly
//   c16_workload : (run under strace) starts from a copy of the template and executes a generated workload of block
//                  connections, forced/periodic flushes with tiny coins-DB batches, reorgs, invalidate/reconsider and
//                  manual pruning, printing MARK lines (write(1)) that strace interleaves with the file operations
//   c16_recover  : opens a crash image through the same LoadChainstate/VerifyLoadedChainstate/ActivateBestChain path
//                  init.cpp uses (no reindex) and checks the recovery oracle against the plan file (all blocks built)
// Environment: VH_C16_ROOT (-testdatadir root), VH_C16_TEMPLATE (datadir_net to copy in), VH_C16_PLAN (blocks file),
//              VH_C16_IMAGE (crash image datadir_net), VH_C16_TIPS (file: one allowed recovered tip hash per line),
//              VH_C16_FLUSHED (hash of the last fully flushed tip before the cut, or empty)
#include <engine/verif.h>
#include <kits/chainsim.h>

#include <node/blockstorage.h>
#include <streams.h>
#include <test/util/script.h>
#include <util/fs.h>
#include <util/time.h>

#include <unistd.h>

#include <chrono>
#include <cstdlib>
#include <filesystem>
#include <fstream>
#include <iostream>
#include <set>

using namespace verif;

namespace {

std::string Env(const char* k) { const char* v = getenv(k); return v ? v : ""; }

void Mark(const std::string& line)
{
    std::string l = "MARK " + line + "\n";
    // unbuffered write(1): strace records it in order with the file operations
    ssize_t r = ::write(1, l.data(), l.size());
    (void)r;
}

class MarkSub : public CValidationInterface
{
protected:
    void BlockConnected(const kernel::ChainstateRole&, const std::shared_ptr<const CBlock>& block, const CBlockIndex* pindex) override
    {
        Mark("tip " + block->GetHash().ToString() + " " + std::to_string(pindex->nHeight));
    }
    void ChainStateFlushed(const kernel::ChainstateRole&, const CBlockLocator& locator) override
    {
        Mark("flush " + (locator.vHave.empty() ? std::string("none") : locator.vHave.front().ToString()));
    }
};

void CopyDir(const fs::path& from, const fs::path& to)
{
    std::filesystem::create_directories(to);
    std::filesystem::copy(from, to, std::filesystem::copy_options::recursive | std::filesystem::copy_options::overwrite_existing);
}

ChainSimOpts DiskOpts(std::vector<std::string>& keep, uint64_t batch_bytes, bool prune)
{
    ChainSimOpts o;
    keep.push_back("-testdatadir=" + Env("VH_C16_ROOT"));
    o.extra_args.push_back(keep.back().c_str());
    o.coins_db_in_memory = false;
    o.block_tree_db_in_memory = false;
    o.fast_prune = true; // 64 KiB block files: workloads cross many file boundaries
    if (prune) o.prune_target = node::BlockManager::PRUNE_TARGET_MANUAL;
    if (batch_bytes) o.tweak_chainman = [batch_bytes](ChainstateManager::Options& c) { c.coins_view.batch_write_bytes = batch_bytes; };
    return o;
}

void AppendPlan(const CBlock& b)
{
    std::string p = Env("VH_C16_PLAN");
    if (p.empty()) return;
    DataStream ds;
    ds << TX_WITH_WITNESS(b);
    std::ofstream f(p, std::ios::binary | std::ios::app);
    uint32_t n = ds.size();
    f.write(reinterpret_cast<const char*>(&n), 4);
    f.write(reinterpret_cast<const char*>(ds.data()), ds.size());
    f.flush();
}

std::vector<std::shared_ptr<CBlock>> ReadPlan(const std::string& p)
{
    std::vector<std::shared_ptr<CBlock>> out;
    std::ifstream f(p, std::ios::binary);
    while (true) {
        uint32_t n;
        if (!f.read(reinterpret_cast<char*>(&n), 4)) break;
        std::vector<std::byte> buf(n);
        if (!f.read(reinterpret_cast<char*>(buf.data()), n)) break;
        DataStream ds{buf};
        auto b = std::make_shared<CBlock>();
        ds >> TX_WITH_WITNESS(*b);
        out.push_back(b);
    }
    return out;
}

} // namespace

VERIF_TARGET(c16_template, nullptr, 0, 8, "builds the on-disk base datadir (104 empty blocks) used by every workload; not a check")
{
    std::vector<std::string> keep;
    ChainSimOpts o = DiskOpts(keep, 0, /*prune=*/true);
    {
        ChainSim sim(o);
        // 320 blocks, each padded to ~3 KB with an OP_RETURN output, so that 64 KiB block files hold ~20 blocks and manual
        // pruning (which keeps the last 288 blocks) has whole files to delete
        for (int i = 0; i < 320; ++i) {
            BlockSpec spec;
            spec.prev = sim.TipHash();
            std::vector<unsigned char> pad(3000, 0x00);
            spec.extra_coinbase_outputs.emplace_back(0, CScript() << OP_RETURN << pad);
            auto b = sim.Build(spec);
            AppendPlan(*b);
            auto d = sim.Deliver(b);
            assert(d.processed && sim.TipHash() == b->GetHash());
        }
        LOCK(cs_main);
        sim.chainstate().ForceFlushStateToDisk(true);
    }
    st.steps++;
}

VERIF_TARGET(c16_workload, nullptr, 32, 600,
             "workloads of 6-40 ops on an on-disk regtest node (64 KiB block files, coins-DB batches of 150-2000 bytes so one flush is many partial "
             "batches): connect block with 0-4 txs | build a fork from 1-4 blocks back and overtake (reorg) | FORCE_FLUSH | FORCE_SYNC | PERIODIC flush "
             "after a mock-time jump | invalidate+reconsider tip | manual prune; every crash image is judged by c16_recover")
{
    std::vector<std::string> keep;
    uint64_t batch = s.pick<uint64_t>({100, 150, 300, 700, 2000, 16 << 20});
    ChainSimOpts o = DiskOpts(keep, batch, /*prune=*/true);
    std::string tmpl = Env("VH_C16_TEMPLATE");
    o.before_load = [tmpl](const fs::path& d) { if (!tmpl.empty()) CopyDir(fs::PathFromString(tmpl), d); Mark("copied"); };
    SetMockTime(0);
    ChainSim sim(o);
    // teach the ledger the base chain (plan file starts with the template's blocks)
    for (auto& b : ReadPlan(Env("VH_C16_PLAN"))) sim.Register(b);
    auto marks = std::make_shared<MarkSub>();
    sim.m_node.validation_signals->RegisterSharedValidationInterface(marks);
    Mark("begin " + sim.TipHash().ToString() + " " + std::to_string(sim.TipHeight()));
    unsigned nops = s.range<unsigned>(6, 40);
    int64_t mock = 1700000000;
    for (unsigned op = 0; op < nops && !s.exhausted(); ++op) {
        unsigned kind = s.range<unsigned>(0, 11);
        auto build_on = [&](const uint256& parent) {
            RefReplay pr = sim.ledger.Replay(parent);
            assert(pr.ok);
            int height = sim.ledger.At(parent).height + 1;
            std::vector<CTransactionRef> txs;
            CAmount fees = 0;
            unsigned ntx = s.range<unsigned>(0, 8);
            RefUtxo u = pr.utxo;
            for (unsigned t = 0; t < ntx; ++t) {
                std::vector<std::pair<COutPoint, RefCoin>> spendable;
                for (auto& [op2, c] : u) if (!(c.coinbase && height - c.height < 100) && c.spk == P2WSH_OP_TRUE) spendable.emplace_back(op2, c);
                if (spendable.empty()) break;
                auto in = spendable[s.index(spendable.size())];
                unsigned nout = s.range<unsigned>(1, 6);
                CAmount fee = s.range<CAmount>(0, 10000), rest = in.second.value - fee;
                std::vector<CTxOut> outs;
                for (unsigned k = 0; k < nout; ++k) { CAmount v = (k + 1 == nout) ? rest : rest / 2; rest -= v; outs.emplace_back(v, P2WSH_OP_TRUE); }
                CTransactionRef tx = MakeTransactionRef(sim.MakeTx({in}, outs));
                u.erase(in.first);
                for (uint32_t k = 0; k < tx->vout.size(); ++k) u[COutPoint(tx->GetHash(), k)] = RefCoin{tx->vout[k].nValue, tx->vout[k].scriptPubKey, height, false};
                fees += fee;
                txs.push_back(tx);
            }
            BlockSpec spec;
            spec.prev = parent; spec.txs = txs; spec.fees = fees; spec.extra_nonce = op * 16 + 1;
            auto blk = sim.Build(spec);
            AppendPlan(*blk);
            auto d = sim.Deliver(blk);
            assert(d.processed);
            return blk->GetHash();
        };
        if (kind <= 4) {
            build_on(sim.TipHash());
            st.note("connect");
        } else if (kind == 5) {
            uint256 tip = sim.TipHash();
            int th = sim.ledger.At(tip).height, back = s.range<int>(1, 4);
            uint256 parent = sim.ledger.AncestorAt(tip, std::max(300, th - back));
            int n = th - sim.ledger.At(parent).height + 1;
            for (int i = 0; i < n; ++i) parent = build_on(parent);
            st.note("reorg depth=", n - 1);
        } else if (kind == 6 || kind == 7) {
            bool wipe = kind == 6;
            Mark(std::string("op flush ") + (wipe ? "FORCE_FLUSH" : "FORCE_SYNC"));
            LOCK(cs_main);
            sim.chainstate().ForceFlushStateToDisk(wipe);
            st.note(wipe ? "FORCE_FLUSH" : "FORCE_SYNC");
        } else if (kind == 8) {
            mock += 2 * 3600;
            SetMockTime(mock);
            Mark("op flush PERIODIC");
            BlockValidationState state;
            LOCK(cs_main);
            sim.chainstate().FlushStateToDisk(state, FlushStateMode::PERIODIC);
            st.note("PERIODIC");
        } else if (kind == 9 && getenv("VH_C16_WITH_INVALIDATE")) {
            // operator-driven InvalidateBlock/Reconsider is NOT part of the registered workloads: the statement is about crashes while
            // connecting, flushing, reorganizing and pruning, and its work bound does not hold across a deliberate invalidation
            // (see corpus/C16/OPEN-OBSERVATION/). Reorgs are produced by overtaking forks (kind 5).
            uint256 tip = sim.TipHash();
            if (sim.ledger.At(tip).height <= 301) continue;
            CBlockIndex* pi;
            { LOCK(cs_main); pi = sim.chainman().m_blockman.LookupBlockIndex(tip); }
            BlockValidationState state;
            Mark("op invalidate");
            sim.chainstate().InvalidateBlock(state, pi);
            if (s.boolean()) { LOCK(cs_main); sim.chainstate().ForceFlushStateToDisk(false); }
            { LOCK(cs_main); sim.chainstate().ResetBlockFailureFlags(pi); sim.chainman().RecalculateBestHeader(); }
            sim.chainstate().ActivateBestChain(state);
            st.note("invalidate+reconsider");
        } else {
            int h = sim.TipHeight() - s.range<int>(0, 40);
            if (h < 1) h = 1;
            Mark("op prune " + std::to_string(h));
            PruneBlockFilesManual(sim.chainstate(), h);
            st.note("prune<", h);
        }
    }
    Mark("end " + sim.TipHash().ToString());
    sim.m_node.validation_signals->UnregisterSharedValidationInterface(marks);
    st.steps++;
    // destructor = clean shutdown (also traced)
}

VERIF_TARGET(c16_recover, nullptr, 0, 8,
             "recovery oracle for one crash image: start without reindex succeeds; recovered tip was fully connected before the cut; coins DB == "
             "RefLedger replay of the recovered tip; after ActivateBestChain chainwork(tip) >= chainwork(last completed full flush)")
{
    std::vector<std::string> keep;
    // VH_C16_BATCH (bytes): coins-DB batch size of the recovering node; small values make the flush that ends ReplayBlocks a
    // multi-batch flush, so that a SECOND crash during recovery can be placed between its partial batches
    uint64_t rbatch = Env("VH_C16_BATCH").empty() ? 0 : std::stoull(Env("VH_C16_BATCH"));
    ChainSimOpts o = DiskOpts(keep, rbatch, /*prune=*/true);
    std::string image = Env("VH_C16_IMAGE");
    o.before_load = [image](const fs::path& d) { CopyDir(fs::PathFromString(image), d); Mark("copied"); };
    o.assert_load = false;
    o.activate_on_load = false;
    SetMockTime(0);
    auto T0 = std::chrono::steady_clock::now();
    auto lap = [&](const char* w) { if (getenv("VH_C16_TIMING")) std::cerr << "TIMING " << w << " " << std::chrono::duration<double>(std::chrono::steady_clock::now() - T0).count() << "\n"; };
    ChainSim sim(o);
    lap("loaded");
    VCHECK(sim.load_ok, "c16.start-fails", "stage", sim.load_stage, sim.load_error);
    VCHECK(sim.m_node.exit_status.load() == 0, "c16.fatal-error", "fatal error during load");
    for (auto& b : ReadPlan(Env("VH_C16_PLAN"))) sim.Register(b);
    std::set<std::string> allowed;
    {
        std::ifstream f(Env("VH_C16_TIPS"));
        std::string l;
        while (std::getline(f, l)) if (!l.empty()) allowed.insert(l);
    }
    lap("plan-read");
    {
        LOCK(cs_main);
        VCHECK(sim.chainman().ActiveChain().Tip() != nullptr, "c16.no-tip", "node came up with an empty active chain although the datadir held a chainstate");
    }
    uint256 tip = sim.TipHash();
    st.note("recovered tip h=", sim.TipHeight(), " ", tip.ToString().substr(0, 10));
    VCHECK(sim.ledger.Known(tip), "c16.tip-unknown", tip.ToString());
    {
        // "a block that was fully connected before the crash": a tip marked before the cut, or any ANCESTOR of such a tip (every
        // ancestor of a connected block was itself fully connected earlier, e.g. the parent that becomes tip when the workload
        // invalidates the template's last block and flushes)
        bool connected_before = allowed.count(tip.ToString()) > 0;
        for (const std::string& a : allowed) {
            if (connected_before) break;
            auto ah = uint256::FromHex(a);
            if (ah && sim.ledger.Known(*ah) && sim.ledger.IsAncestor(tip, *ah)) connected_before = true;
        }
        VCHECK(connected_before, "c16.tip-never-connected", "recovered tip", tip.ToString(), "height", sim.TipHeight(), "was not a fully connected block before the cut");
    }
    {
        // UTXO set straight from the coins DB as loaded (no flush: nothing has been connected yet)
        RefUtxo node;
        {
            LOCK(cs_main);
            std::unique_ptr<CCoinsViewCursor> cur = sim.chainstate().CoinsDB().Cursor();
            while (cur->Valid()) {
                COutPoint k; Coin c;
                if (cur->GetKey(k) && cur->GetValue(c)) node[k] = RefCoin{c.out.nValue, c.out.scriptPubKey, int(c.nHeight), bool(c.fCoinBase)};
                cur->Next();
            }
        }
        RefReplay r = sim.ledger.Replay(tip);
        VCHECK(r.ok, "c16.model", "model rejects recovered chain", r.why);
        std::string diff;
        if (!(node == r.utxo)) {
            for (auto& [k, c] : r.utxo) { auto it = node.find(k); if (it == node.end()) { diff = "coin missing: " + k.ToString(); break; } if (!(it->second == c)) { diff = "coin differs: " + k.ToString(); break; } }
            if (diff.empty()) for (auto& [k, c] : node) if (!r.utxo.count(k)) { diff = "extra coin: " + k.ToString(); break; }
        }
        st.steps++;
        VCHECK(diff.empty(), "c16.utxo-mismatch", diff, "recovered tip", tip.ToString(), "node coins", node.size(), "model coins", r.utxo.size());
    }
    lap("utxo-compared");
    // resume: connect stored blocks
    BlockValidationState state;
    bool abc = sim.chainstate().ActivateBestChain(state);
    VCHECK(abc, "c16.activate-fails", state.ToString());
    VCHECK(sim.m_node.exit_status.load() == 0, "c16.fatal-error", "fatal error during ActivateBestChain");
    std::string flushed = Env("VH_C16_FLUSHED");
    if (!flushed.empty() && flushed != "none") {
        auto fh = uint256::FromHex(flushed);
        VCHECK(fh && sim.ledger.Known(*fh), "c16.harness", "unknown flushed hash");
        int64_t need = sim.ledger.At(*fh).work_units, have = sim.ledger.At(sim.TipHash()).work_units;
        st.steps++;
        VCHECK(have >= need, "c16.work-regressed", "tip work units", have, "< last completed flush", need, "tip", sim.TipHash().ToString());
    }
    {
        std::string diff = sim.CompareUtxoWithModel();
        st.steps++;
        VCHECK(diff.empty(), "c16.utxo-after-resume", diff);
    }
    lap("resumed+compared");
    st.note("resumed tip h=", sim.TipHeight());
    st.nontrivial = true;
}
