#!/usr/bin/env python3
"""Combining build front-end for the shared build trees (several agents/checks build concurrently; ninja has no locking).

Everyone appends the targets it wants to build/<cfg>.queue, then waits for build/<cfg>.lock. Whoever gets the lock builds
EVERYTHING queued so far in one parallel `ninja -k 0` (other people's failures are ignored), then its own targets (usually a
no-op) to obtain its own exit status and output. Waiters therefore find their targets already built when their turn comes.
"""
import fcntl
import os
import subprocess
import sys
import time

V = os.path.dirname(os.path.dirname(os.path.abspath(__file__)))


def build(cfg, targets, quiet=False):
    """-> (returncode, output)"""
    bdir = os.path.join(V, "build")
    os.makedirs(bdir, exist_ok=True)
    env = dict(os.environ)
    env["CCACHE_DIR"] = os.path.join(bdir, "ccache")
    qpath, qlock = os.path.join(bdir, cfg + ".queue"), os.path.join(bdir, cfg + ".queue.lock")
    with open(qlock, "w") as ql:
        fcntl.flock(ql, fcntl.LOCK_EX)
        with open(qpath, "a") as q:
            for t in targets:
                q.write(t + "\n")
    t0 = time.time()
    with open(os.path.join(bdir, cfg + ".lock"), "w") as lock:
        fcntl.flock(lock, fcntl.LOCK_EX)
        waited = time.time() - t0
        if not os.path.exists(os.path.join(bdir, cfg, "build.ninja")):
            r = subprocess.run([os.path.join(V, "bin", "configure.sh"), cfg], env=env, stdout=subprocess.PIPE, stderr=subprocess.STDOUT, text=True)
            if r.returncode != 0:
                return r.returncode, "configure failed:\n" + r.stdout[-4000:]
        with open(qlock, "w") as ql:
            fcntl.flock(ql, fcntl.LOCK_EX)
            queued = set(l.strip() for l in open(qpath) if l.strip()) if os.path.exists(qpath) else set()
            open(qpath, "w").close()
        others = sorted(queued - set(targets))
        if others:
            # build everybody's targets in one parallel pass; their errors are theirs
            subprocess.run(["ninja", "-C", os.path.join(bdir, cfg), "-k", "0"] + others + list(targets), env=env,
                           stdout=subprocess.DEVNULL, stderr=subprocess.DEVNULL)
        r = subprocess.run(["ninja", "-C", os.path.join(bdir, cfg)] + list(targets), env=env, stdout=subprocess.PIPE, stderr=subprocess.STDOUT, text=True)
        out = r.stdout
        if not quiet:
            out += f"\n[vbuild] waited {waited:.0f}s for the lock, built {len(others)} queued target(s) of others alongside\n"
        return r.returncode, out


if __name__ == "__main__":
    cfg = os.environ.get("CFG", "san")
    rc, out = build(cfg, sys.argv[1:])
    sys.stdout.write(out)
    sys.exit(rc)
