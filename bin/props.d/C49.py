# C49: cryptographic primitives vs standard references (engine E2: Hypothesis + sutd). Helpers gen()/enum()/hyp()/custom() come from props.py.
SPEC = {
    'level': 'exploration',
    'assumptions': [
        'references: CPython hashlib/hmac (OpenSSL), test_framework.crypto.{ripemd160,siphash,chacha20,poly1305,hkdf,bip324_cipher,muhash} and the byte-wise '
        'FIPS-197/SP 800-38A implementation py/ref_aes.py (self-tested against the NIST vectors) are correct',
        'SHA-256 backends reachable on this CPU through SHA256AutoDetect: standard, sse4+sse41(4way), +avx2(8way), x86_shani(1way;2way); ARM back-ends not reachable',
        'ChaCha20 block counter never wraps 2^32 inside a case (outside RFC 8439); AES-CBC encrypt of empty input and all-padding plaintexts are not distinguished from failure (API returns 0 for both)',
        'message lengths 0..2100 bytes; all 2^(n-1) chunkings only for tails n<=9 after a block-boundary prefix, random chunkings beyond',
    ],
    'stages': [
        hyp('c49_crypto.py', 44000, 600000, needs=[('san', 'sutd')], min_cases_quick=15000,
            floors={'kind:hash': 0.08, 'kind:splits': 0.02, 'kind:d64': 0.01, 'kind:aead': 0.04, 'kind:aescbc': 0.01, 'kind:poly1305': 0.02, 'kind:chacha20': 0.02,
                    'kind:siphash': 0.02, 'kind:hmac': 0.02, 'kind:hkdf': 0.01, 'kind:fsaead': 0.01, 'kind:aes': 0.01, 'backend:x86_shani(1way;2way)': 0.05,
                    'backend:sse4(1way);sse41(4way);avx2(8way)': 0.05, 'backend:standard': 0.05},
            rule='one primitive invocation per case (hash/hmac/hkdf/siphash/chacha20/poly1305/aead/fs-aead/aes/aes-cbc/muhash/SHA256D64/all-chunkings); '
                 'non-trivial = non-empty message or a tampered AEAD input; distinct = kind+algorithm+lengths+chunking+tamper kind'),
    ],
}

META = {
    'level_text': 'Generated inputs (lengths biased to block boundaries, arbitrary streaming chunkings incl. every split of short tails, every SHA-256 back-end selectable '
                  'at run time, SHA256D64 batch paths, AEAD single-bit tamperings, rekeying across FSChaCha20(-Poly1305) intervals) are fed to the C++ primitives through '
                  'a sanitizer-built daemon and every digest/ciphertext/tag/verdict is compared with an independent implementation. Exploration, not exhaustive.',
    'technique': 'property-based differential testing (Hypothesis) against independent reference implementations; tamper-rejection properties for the AEAD',
    'level_note': 'Trusted: hashlib/hmac, the functional-test crypto modules, py/ref_aes.py. Not covered: ARM SHA-NI, SipHash-1-3-UJ (no independent definition), constant-time behaviour.',
}
