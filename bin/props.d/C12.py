# C12: the script interpreter implements Bitcoin script semantics. Helpers gen()/enum()/hyp()/custom() come from props.py.
_OPS_FLOOR = {
    # every defined non-push opcode must actually be EXECUTED (reference trace) in a fraction of the cases, else the generator is degenerate
    "op:%02x" % o: 0.0005 for o in
    [0x4f, 0x51, 0x60, 0x61, 0x63, 0x64, 0x67, 0x68, 0x69, 0x6a, 0x6b, 0x6c, 0x6d, 0x6e, 0x6f, 0x70, 0x71, 0x72, 0x73, 0x74, 0x75, 0x76, 0x77, 0x78, 0x79, 0x7a, 0x7b, 0x7c, 0x7d,
     0x82, 0x87, 0x88, 0x8b, 0x8c, 0x8f, 0x90, 0x91, 0x92, 0x93, 0x94, 0x9a, 0x9b, 0x9c, 0x9d, 0x9e, 0x9f, 0xa0, 0xa1, 0xa2, 0xa3, 0xa4, 0xa5, 0xa6, 0xa7, 0xa8, 0xa9, 0xaa,
     0xab, 0xac, 0xad, 0xae, 0xaf, 0xb0, 0xb1, 0xb2, 0xb3, 0xb9, 0xba]
}
SPEC = {
    "level": "exploration",
    "assumptions": [
        "reference: py/refscript.py (independent interpreter written from the opcode table and BIP16/65/66/112/141/143/146/147/341/342); it is used only after its "
        "self-test agrees with every vector of src/test/data/script_tests.json (1233 verdicts + 11817 single-flag variations), tx_valid.json / tx_invalid.json "
        "(4710 verdicts incl. the unit test's flag-maximality/minimality variations) and the bip341 wallet vectors (19); otherwise the check exits 2",
        "signature hashes from test_framework/script.py, ECDSA/BIP340 verification from test_framework/key.py on secp256k1.py (own lax-DER parser in refscript); "
        "signatures in generated spends are made in Python (RFC6979 / BIP340 with zero aux)",
        "success/failure (and the final stack for bare EvalScript when both succeed) is compared; ScriptError identity is recorded as statistics only",
        "bare EvalScript through sutd covers sigversions base and witness_v0; tapscript is reached through full VerifyScript of generated taproot spends",
        "valid flag sets only (WITNESS => P2SH, CLEANSTACK => P2SH+WITNESS), as VerifyScript asserts",
        "metamorphic targets: a checker for which every signature/lock-time check fails; flag sets without MINIMALDATA/CONST_SCRIPTCODE for the encoding relations",
    ],
    "stages": [
        hyp("c12_script.py", 4000, 100000, needs=[("san", "sutd")], min_cases_quick=2000,
            floors=dict(_OPS_FLOOR, **{"kind:eval": 0.5, "kind:spend": 0.12, "ok": 0.2, "sv:witness_v0": 0.1, "deep-stack": 0.005, "big-script": 0.004,
                                      "template:p2tr_budget": 0.001, "template:p2tr_unknownpk": 0.004, "unknownpk:budget-edge-over": 0.001, "template:p2tr_script": 0.002, "template:p2wsh_script": 0.002, "template:p2sh_multisig": 0.001,
                                      "fail:MINIMALDATA": 0.002, "fail:OP_COUNT": 0.002, "fail:STACK_SIZE": 0.002, "fail:PUSH_SIZE": 0.0005, "fail:PUBKEY_COUNT": 0.001,
                                      "fail:DISABLED_OPCODE": 0.005}),
            rule="grammar-generated scripts (bare EvalScript, base / witness v0) and generated spends with real signatures (VerifyScript incl. P2SH, segwit v0, "
                 "taproot/tapscript) vs refscript; non-trivial = >= 3 distinct non-push opcodes executed and a boundary operand / limit pattern / corruption present; "
                 "distinct = executed opcode set x verdict x template"),
        gen("vh_c12", "c12_encoding", 40000, 1000000, min_cases_quick=20000, floors={"base-ok": 0.05, "re-encoded": 0.5, "split-valid": 0.02},
            rule="push re-encoding / OP_NOP prefix / push-only run moved across the scriptSig|scriptPubKey boundary leave verdict and stack unchanged"),
        gen("vh_c12", "c12_numeric", 150000, 4000000, min_cases_quick=50000, floors={"valid": 0.3, "invalid-operand": 0.1, "padded": 0.1},
            rule="one numeric opcode on boundary operands vs exact __int128 arithmetic with an own number codec"),
        gen("vh_c12", "c12_stackops", 30000, 800000, min_cases_quick=15000, floors={"all-steps-ok": 0.1, "ends-in-failure": 0.1},
            rule="stack-manipulation opcode sequences vs std::vector model, lock-step per prefix"),
    ],
}

META = {
    "level_text": "Generated scripts over the whole opcode space (boundary pushes in minimal and non-minimal encodings, nested and unbalanced conditionals, the 201-opcode, "
                  "1000-element, 520-byte and 10000-byte limits at +-1, PICK/ROLL at the depth edge, CHECKMULTISIG with 0..21 keys) and generated spends with real "
                  "signatures (P2PK(H), multisig, P2SH, P2WPKH/P2WSH, taproot key and script path, tapscript validation-weight budget at +-1, OP_SUCCESS, annex, unknown "
                  "versions; 17 kinds of corruption) are evaluated by the C++ interpreter (sanitizer build) and by an independent Python interpreter under random valid "
                  "flag sets; verdicts (and final stacks of bare evaluations) must agree. Plus three reference-free C++ relations at high volume (push-encoding "
                  "invariance, NOP prefixing, scriptSig/scriptPubKey split; numeric opcodes vs exact arithmetic; stack opcodes vs a vector model). Exploration, not "
                  "exhaustive: the quick tier runs ~4k differential and ~220k relational cases.",
    "technique": "property-based differential testing (Hypothesis grammar) against an independent reference interpreter gated by the repository's own vectors; "
                 "metamorphic relations and model-based testing in C++",
    "level_note": "Trusted: py/refscript.py (earns trust per run: 17,779 vector verdicts), test_framework script.py/key.py/secp256k1.py. Not covered: equality of ScriptError "
                  "values; bare tapscript EvalScript (only via VerifyScript); signature-hash correctness beyond what accept/reject of real signatures implies (C10).",
}
