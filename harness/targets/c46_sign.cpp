// C46 — Signing produces valid spends and never fakes a satisfaction.
// Oracles:
//  * c46.complete-implies-verify   SignatureData.complete (ProduceSignature) / input without error (SignTransaction) => the spend written into
//                                  the transaction passes VerifyScript(STANDARD_SCRIPT_VERIFY_FLAGS) with a FRESH checker over the final tx.
//  * c46.unsat-never-complete      an independent boolean satisfiability evaluator over MY OWN miniscript AST (and/or/thresh/multi semantics,
//                                  key / preimage availability sets, BIP65/BIP112 timelock predicates evaluated on the concrete transaction)
//                                  says "unsatisfiable" => the signer must not report complete. The evaluator over-approximates
//                                  satisfiability (ignores malleability, resource limits), so the implication is sound.
//  (satisfiable-by-model but not complete is only counted: the statement does not promise completeness.)
#include <engine/verif.h>

#include <addresstype.h>
#include <coins.h>
#include <crypto/ripemd160.h>
#include <crypto/sha256.h>
#include <hash.h>
#include <key.h>
#include <policy/policy.h>
#include <primitives/transaction.h>
#include <pubkey.h>
#include <script/descriptor.h>
#include <script/interpreter.h>
#include <script/miniscript.h>
#include <script/script.h>
#include <script/script_error.h>
#include <script/sign.h>
#include <script/signingprovider.h>
#include <util/strencodings.h>
#include <util/translation.h>

#include <algorithm>
#include <array>
#include <map>
#include <memory>
#include <optional>
#include <set>
#include <string>
#include <vector>

namespace {

using valtype = std::vector<unsigned char>;
constexpr unsigned NKEYS = 10;
constexpr unsigned NHASH = 3;

struct Global {
    std::unique_ptr<ECC_Context> ecc;
    std::vector<CKey> keys;       // compressed
    std::vector<CPubKey> pubs;    // compressed
    std::vector<CPubKey> upubs;   // uncompressed encodings of the same keys
    std::vector<valtype> preimage;                      // NHASH preimages (32 bytes)
    std::vector<valtype> sha256, hash256, ripemd160, hash160; // their hashes
};
Global& g = *new Global; // never destroyed (keys live in the locked pool)

void init()
{
    g.ecc = std::make_unique<ECC_Context>();
    for (unsigned i = 0; i < NKEYS; ++i) {
        std::array<unsigned char, 32> raw{};
        raw[0] = 0x46; raw[17] = 0x5a; raw[31] = uint8_t(i + 1);
        CKey k;
        k.Set(raw.begin(), raw.end(), true);
        g.keys.push_back(k);
        CPubKey pk = k.GetPubKey();
        g.pubs.push_back(pk);
        pk.Decompress();
        g.upubs.push_back(pk);
    }
    for (unsigned i = 0; i < NHASH; ++i) {
        valtype pre(32, uint8_t(0xa0 + i));
        g.preimage.push_back(pre);
        valtype h(32);
        CSHA256().Write(pre.data(), 32).Finalize(h.data());
        g.sha256.push_back(h);
        CHash256().Write(pre).Finalize(h);
        g.hash256.push_back(h);
        valtype h20(20);
        CRIPEMD160().Write(pre.data(), 32).Finalize(h20.data());
        g.ripemd160.push_back(h20);
        CHash160().Write(pre).Finalize(h20);
        g.hash160.push_back(h20);
    }
}

// ------------------------------------------------------------------------------------------------ my own miniscript AST
enum Frag { PK, PKH, OLDER, AFTER, H_SHA256, H_HASH256, H_RIPEMD160, H_HASH160, MULTI, MULTI_A, JUST0, JUST1, AND_V, AND_B, OR_B, OR_C, OR_D, OR_I, ANDOR, THRESH, WRAP };
const char* FRAG_NAME[] = {"pk", "pkh", "older", "after", "sha256", "hash256", "ripemd160", "hash160", "multi", "multi_a", "0", "1", "and_v", "and_b", "or_b", "or_c", "or_d", "or_i", "andor", "thresh", "wrap"};

enum Prop : unsigned { P_Z = 1, P_O = 2, P_N = 4, P_D = 8, P_U = 16 };

struct Ms {
    Frag f{PK};
    char wrap{0};             // for WRAP: one of a s c d v j n t l u  (c never used: pk()/pkh() are the c:-wrapped leaves already)
    uint32_t k{0};            // timelock value or threshold
    std::vector<unsigned> keys;
    unsigned hash_idx{0};
    std::vector<Ms> subs;
    // own (partial) type calculus, used only to steer generation; the repository's type checker has the last word
    char type{'B'};
    unsigned props{0};
};

bool has(const Ms& m, unsigned p) { return (m.props & p) == p; }

std::string key_name(unsigned ki) { return std::string(1, char('A' + ki)); }

std::string to_string(const Ms& m)
{
    auto list = [&](const std::string& name) {
        std::string r = name + "(";
        for (size_t i = 0; i < m.subs.size(); ++i) r += (i ? "," : "") + to_string(m.subs[i]);
        return r + ")";
    };
    switch (m.f) {
    case PK: return "pk(" + key_name(m.keys[0]) + ")";
    case PKH: return "pkh(" + key_name(m.keys[0]) + ")";
    case OLDER: return "older(" + std::to_string(m.k) + ")";
    case AFTER: return "after(" + std::to_string(m.k) + ")";
    case H_SHA256: return "sha256(" + HexStr(g.sha256[m.hash_idx]) + ")";
    case H_HASH256: return "hash256(" + HexStr(g.hash256[m.hash_idx]) + ")";
    case H_RIPEMD160: return "ripemd160(" + HexStr(g.ripemd160[m.hash_idx]) + ")";
    case H_HASH160: return "hash160(" + HexStr(g.hash160[m.hash_idx]) + ")";
    case MULTI: case MULTI_A: {
        std::string r = std::string(m.f == MULTI ? "multi(" : "multi_a(") + std::to_string(m.k);
        for (unsigned ki : m.keys) r += "," + key_name(ki);
        return r + ")";
    }
    case JUST0: return "0";
    case JUST1: return "1";
    case AND_V: return list("and_v");
    case AND_B: return list("and_b");
    case OR_B: return list("or_b");
    case OR_C: return list("or_c");
    case OR_D: return list("or_d");
    case OR_I: return list("or_i");
    case ANDOR: return list("andor");
    case THRESH: {
        std::string r = "thresh(" + std::to_string(m.k);
        for (auto& sub : m.subs) r += "," + to_string(sub);
        return r + ")";
    }
    case WRAP: {
        // consecutive wrappers share one colon: "vc:..." ; a wrapper in front of a non-wrapper adds the colon
        std::string inner = to_string(m.subs[0]);
        if (m.subs[0].f == WRAP) return std::string(1, m.wrap) + inner;
        return std::string(1, m.wrap) + ":" + inner;
    }
    }
    return "?";
}

// ---- own type calculus (subset of the miniscript spec: base type + z,o,n,d,u)
Ms leaf(Frag f)
{
    Ms m; m.f = f;
    switch (f) {
    case PK: m.props = P_O | P_N | P_D | P_U; break;
    case PKH: m.props = P_N | P_D | P_U; break;
    case OLDER: case AFTER: m.props = P_Z; break;
    case H_SHA256: case H_HASH256: case H_RIPEMD160: case H_HASH160: m.props = P_O | P_N | P_D | P_U; break;
    case MULTI: m.props = P_N | P_D | P_U; break;
    case MULTI_A: m.props = P_D | P_U; break;
    case JUST0: m.props = P_Z | P_U | P_D; break;
    case JUST1: m.props = P_Z | P_U; break;
    default: break;
    }
    return m;
}

/** Compute type/props of a combinator from its children; returns false if (by my rules) ill-typed. */
bool settype(Ms& m, bool tapscript)
{
    auto& s = m.subs;
    auto z = [&](size_t i) { return has(s[i], P_Z); };
    auto o = [&](size_t i) { return has(s[i], P_O); };
    auto n = [&](size_t i) { return has(s[i], P_N); };
    auto d = [&](size_t i) { return has(s[i], P_D); };
    auto u = [&](size_t i) { return has(s[i], P_U); };
    unsigned p = 0;
    switch (m.f) {
    case WRAP:
        switch (m.wrap) {
        case 'a': if (s[0].type != 'B') return false; m.type = 'W'; p = s[0].props & (P_D | P_U); break;
        case 's': if (s[0].type != 'B' || !o(0)) return false; m.type = 'W'; p = s[0].props & (P_D | P_U); break;
        case 'd': if (s[0].type != 'V' || !z(0)) return false; m.type = 'B'; p = P_O | P_N | P_D | (tapscript ? P_U : 0); break;
        case 'v': if (s[0].type != 'B') return false; m.type = 'V'; p = s[0].props & (P_Z | P_O | P_N); break;
        case 'j': if (s[0].type != 'B' || !n(0)) return false; m.type = 'B'; p = (s[0].props & (P_O | P_U)) | P_N | P_D; break;
        case 'n': if (s[0].type != 'B') return false; m.type = 'B'; p = (s[0].props & (P_Z | P_O | P_N | P_D)) | P_U; break;
        case 't': if (s[0].type != 'V') return false; m.type = 'B'; p = (s[0].props & (P_Z | P_O | P_N)) | P_U; break;            // and_v(X,1)
        case 'l': if (s[0].type != 'B') return false; m.type = 'B'; p = (z(0) ? P_O : 0) | P_D | (u(0) ? P_U : 0); break;          // or_i(0,X)
        case 'u': if (s[0].type != 'B') return false; m.type = 'B'; p = (z(0) ? P_O : 0) | P_D | (u(0) ? P_U : 0); break;          // or_i(X,0)
        default: return false;
        }
        break;
    case AND_V:
        if (s[0].type != 'V' || s[1].type == 'W') return false;
        m.type = s[1].type;
        p = (z(0) && z(1) ? P_Z : 0) | ((z(0) && o(1)) || (o(0) && z(1)) ? P_O : 0) | (n(0) || (z(0) && n(1)) ? P_N : 0) | (u(1) ? P_U : 0);
        break;
    case AND_B:
        if (s[0].type != 'B' || s[1].type != 'W') return false;
        m.type = 'B';
        p = (z(0) && z(1) ? P_Z : 0) | ((z(0) && o(1)) || (o(0) && z(1)) ? P_O : 0) | (n(0) || (z(0) && n(1)) ? P_N : 0) | (d(0) && d(1) ? P_D : 0) | P_U;
        break;
    case OR_B:
        if (s[0].type != 'B' || !d(0) || s[1].type != 'W' || !d(1)) return false;
        m.type = 'B';
        p = (z(0) && z(1) ? P_Z : 0) | ((z(0) && o(1)) || (o(0) && z(1)) ? P_O : 0) | P_D | P_U;
        break;
    case OR_C:
        if (s[0].type != 'B' || !d(0) || !u(0) || s[1].type != 'V') return false;
        m.type = 'V';
        p = (z(0) && z(1) ? P_Z : 0) | (o(0) && z(1) ? P_O : 0);
        break;
    case OR_D:
        if (s[0].type != 'B' || !d(0) || !u(0) || s[1].type != 'B') return false;
        m.type = 'B';
        p = (z(0) && z(1) ? P_Z : 0) | (o(0) && z(1) ? P_O : 0) | (d(1) ? P_D : 0) | (u(1) ? P_U : 0);
        break;
    case OR_I:
        if (s[0].type != s[1].type || s[0].type == 'W') return false;
        m.type = s[0].type;
        p = (z(0) && z(1) ? P_O : 0) | (d(0) || d(1) ? P_D : 0) | (u(0) && u(1) ? P_U : 0);
        break;
    case ANDOR:
        if (s[0].type != 'B' || !d(0) || !u(0) || s[1].type != s[2].type || s[1].type == 'W') return false;
        m.type = s[1].type;
        p = (z(0) && z(1) && z(2) ? P_Z : 0) | ((z(0) && o(1) && o(2)) || (o(0) && z(1) && z(2)) ? P_O : 0) | (u(1) && u(2) ? P_U : 0) | (d(2) ? P_D : 0);
        break;
    case THRESH: {
        unsigned no = 0, nz = 0;
        for (size_t i = 0; i < s.size(); ++i) {
            if (s[i].type != (i ? 'W' : 'B') || !d(i) || !u(i)) return false;
            no += o(i); nz += z(i);
        }
        if (m.k < 1 || m.k > s.size()) return false;
        m.type = 'B';
        p = (nz == s.size() ? P_Z : 0) | (no == 1 && nz == s.size() - 1 ? P_O : 0) | P_D | P_U;
        break;
    }
    default: return true;
    }
    m.props = p;
    return true;
}

struct GenCtx {
    verif::Src& s;
    bool tapscript;
    unsigned budget;     // remaining nodes
};

const uint32_t OLDER_VALUES[] = {1, 5, 10, 65535, (1u << 22) | 1, (1u << 22) | 10};
const uint32_t AFTER_VALUES[] = {1, 100, 499999999, 500000000, 500000100};

Ms gen_leaf_B(GenCtx& c, unsigned req)
{
    // req: properties the caller needs. pk() has o,n,d,u.
    unsigned pick = unsigned(c.s.index(12));
    Ms m;
    switch (pick) {
    default: case 0: m = leaf(PK); m.keys = {unsigned(c.s.index(NKEYS))}; break;
    case 1: m = leaf(PKH); m.keys = {unsigned(c.s.index(NKEYS))}; break;
    case 2: m = leaf(OLDER); m.k = OLDER_VALUES[c.s.index(6)]; break;
    case 3: m = leaf(AFTER); m.k = AFTER_VALUES[c.s.index(5)]; break;
    case 4: m = leaf(H_SHA256); m.hash_idx = unsigned(c.s.index(NHASH)); break;
    case 5: m = leaf(H_HASH256); m.hash_idx = unsigned(c.s.index(NHASH)); break;
    case 6: m = leaf(H_RIPEMD160); m.hash_idx = unsigned(c.s.index(NHASH)); break;
    case 7: m = leaf(H_HASH160); m.hash_idx = unsigned(c.s.index(NHASH)); break;
    case 8: {
        m = leaf(c.tapscript ? MULTI_A : MULTI);
        unsigned n = 1 + unsigned(c.s.index(4));
        unsigned first = unsigned(c.s.index(NKEYS));
        for (unsigned i = 0; i < n; ++i) m.keys.push_back((first + i * (1 + unsigned(c.s.index(2)))) % NKEYS);
        m.k = 1 + unsigned(c.s.index(n));
        break;
    }
    case 9: m = leaf(JUST1); break;
    case 10: m = leaf(JUST0); break;
    }
    if ((m.props & req) != req) { m = leaf(PK); m.keys = {unsigned(c.s.index(NKEYS))}; }
    return m;
}

Ms gen(GenCtx& c, char type, unsigned req, unsigned depth);

Ms wrap(char w, Ms sub, bool tapscript)
{
    Ms m; m.f = WRAP; m.wrap = w; m.subs.push_back(std::move(sub));
    if (!settype(m, tapscript)) m.type = '!';
    return m;
}

Ms gen_once(GenCtx& c, char type, unsigned req, unsigned depth)
{
    const bool stop = depth == 0 || c.budget == 0;
    if (c.budget) --c.budget;
    if (type == 'W') {
        if (c.s.boolean()) return wrap('s', gen(c, 'B', req | P_O, depth), c.tapscript);
        return wrap('a', gen(c, 'B', req, depth), c.tapscript);
    }
    if (type == 'V') {
        unsigned pick = stop ? 0 : unsigned(c.s.index(4));
        if (pick == 1) { Ms m; m.f = AND_V; m.subs = {gen(c, 'V', 0, depth - 1), gen(c, 'V', 0, depth - 1)}; if (settype(m, c.tapscript)) return m; }
        if (pick == 2) { Ms m; m.f = OR_C; m.subs = {gen(c, 'B', P_D | P_U, depth - 1), gen(c, 'V', 0, depth - 1)}; if (settype(m, c.tapscript)) return m; }
        return wrap('v', gen(c, 'B', req & (P_Z | P_O | P_N), stop ? 0 : depth - 1), c.tapscript);
    }
    // type B
    if (stop) return gen_leaf_B(c, req);
    unsigned pick = unsigned(c.s.index(18));
    Ms m;
    switch (pick) {
    case 0: case 1: return gen_leaf_B(c, req);
    case 2: m.f = AND_V; m.subs = {gen(c, 'V', 0, depth - 1), gen(c, 'B', req & P_U, depth - 1)}; break;
    case 3: m.f = AND_B; m.subs = {gen(c, 'B', req & P_D, depth - 1), gen(c, 'W', req & P_D, depth - 1)}; break;
    case 4: m.f = OR_B; m.subs = {gen(c, 'B', P_D, depth - 1), gen(c, 'W', P_D, depth - 1)}; break;
    case 5: m.f = OR_D; m.subs = {gen(c, 'B', P_D | P_U, depth - 1), gen(c, 'B', req & (P_D | P_U), depth - 1)}; break;
    case 6: m.f = OR_I; m.subs = {gen(c, 'B', req & P_U, depth - 1), gen(c, 'B', req & P_U, depth - 1)}; break;
    case 7: m.f = ANDOR; m.subs = {gen(c, 'B', P_D | P_U, depth - 1), gen(c, 'B', req & P_U, depth - 1), gen(c, 'B', req & (P_D | P_U), depth - 1)}; break;
    case 8: case 9: {
        m.f = THRESH;
        unsigned n = 1 + unsigned(c.s.index(4));
        m.subs.push_back(gen(c, 'B', P_D | P_U, depth - 1));
        for (unsigned i = 1; i < n; ++i) m.subs.push_back(gen(c, 'W', P_D | P_U, depth - 1));
        m.k = 1 + unsigned(c.s.index(n));
        break;
    }
    case 10: return wrap('j', gen(c, 'B', P_N, depth - 1), c.tapscript);
    case 11: return wrap('n', gen(c, 'B', 0, depth - 1), c.tapscript);
    case 12: return wrap('t', gen(c, 'V', 0, depth - 1), c.tapscript);
    case 13: return wrap('l', gen(c, 'B', 0, depth - 1), c.tapscript);
    case 14: return wrap('u', gen(c, 'B', 0, depth - 1), c.tapscript);
    case 15: { // dv:older(n) / dv:after(n): the idiomatic use of d:
        Ms tl = leaf(c.s.boolean() ? OLDER : AFTER);
        tl.k = tl.f == OLDER ? OLDER_VALUES[c.s.index(6)] : AFTER_VALUES[c.s.index(5)];
        return wrap('d', wrap('v', tl, c.tapscript), c.tapscript);
    }
    default: m.f = AND_V; m.subs = {wrap('v', gen_leaf_B(c, 0), c.tapscript), gen(c, 'B', req & P_U, depth - 1)}; break;
    }
    if (!settype(m, c.tapscript)) m.type = '!';
    return m;
}

Ms gen(GenCtx& c, char type, unsigned req, unsigned depth)
{
    for (int attempt = 0; attempt < 3; ++attempt) {
        Ms m = gen_once(c, type, req, depth);
        if (m.type == type && (m.props & req) == req) return m;
    }
    // fallback that certainly fits (pk has o,n,d,u; wrappers keep d,u)
    Ms pk = leaf(PK); pk.keys = {unsigned(c.s.index(NKEYS))};
    if (type == 'B') return pk;
    if (type == 'V') return wrap('v', pk, c.tapscript);
    return wrap('s', pk, c.tapscript);
}

// ------------------------------------------------------------------------------------------------ the independent satisfiability evaluator
struct World {
    std::set<unsigned> sign_keys;    // keys whose private key the signer holds
    std::set<unsigned> known_pubs;   // keys whose public key can be looked up from a hash
    std::set<unsigned> preimages;    // available preimages (index; same index for all 4 hash kinds)
    uint32_t tx_version{2};
    uint32_t tx_locktime{0};
    uint32_t in_sequence{0xffffffff};
};

/** BIP65 OP_CHECKLOCKTIMEVERIFY predicate for operand n (0 < n < 2^31). */
bool ref_after(const World& w, uint32_t n)
{
    const uint32_t THRESHOLD = 500000000;
    if ((w.tx_locktime < THRESHOLD) != (n < THRESHOLD)) return false; // different units
    if (n > w.tx_locktime) return false;
    if (w.in_sequence == 0xffffffff) return false;                   // input is final: nLockTime not enforced
    return true;
}
/** BIP112 OP_CHECKSEQUENCEVERIFY predicate for operand n (0 < n < 2^31, so the operand's disable flag is never set). */
bool ref_older(const World& w, uint32_t n)
{
    const uint32_t DISABLE = 1u << 31, TYPE = 1u << 22, MASK = TYPE | 0xffff;
    if (w.tx_version < 2) return false;
    if (w.in_sequence & DISABLE) return false;
    uint32_t a = n & MASK, b = w.in_sequence & MASK;
    if ((a < TYPE) != (b < TYPE)) return false;
    return a <= b;
}

bool ref_sat(const Ms& m, const World& w)
{
    switch (m.f) {
    case PK: return w.sign_keys.count(m.keys[0]) > 0;
    // pkh additionally needs the public key behind the hash; the signer can learn it from its key store OR from a signature it made for the
    // same key elsewhere in the expression, so the model only requires the signature (over-approximation keeps the implication sound)
    case PKH: return w.sign_keys.count(m.keys[0]) > 0;
    case OLDER: return ref_older(w, m.k);
    case AFTER: return ref_after(w, m.k);
    case H_SHA256: case H_HASH256: case H_RIPEMD160: case H_HASH160: return w.preimages.count(m.hash_idx) > 0;
    case MULTI: case MULTI_A: {
        // every position needs its own signature; the same key listed twice can sign twice
        unsigned cnt = 0;
        for (unsigned ki : m.keys) cnt += w.sign_keys.count(ki) > 0;
        return cnt >= m.k;
    }
    case JUST0: return false;
    case JUST1: return true;
    case AND_V: case AND_B: return ref_sat(m.subs[0], w) && ref_sat(m.subs[1], w);
    case OR_B: case OR_C: case OR_D: case OR_I: return ref_sat(m.subs[0], w) || ref_sat(m.subs[1], w);
    case ANDOR: return (ref_sat(m.subs[0], w) && ref_sat(m.subs[1], w)) || ref_sat(m.subs[2], w);
    case THRESH: { unsigned cnt = 0; for (auto& sub : m.subs) cnt += ref_sat(sub, w); return cnt >= m.k; }
    case WRAP: return ref_sat(m.subs[0], w); // a s c d v j n are transparent; t:X = and_v(X,1), l:X = or_i(0,X), u:X = or_i(X,0)
    }
    return true; // unreachable; "satisfiable" is the safe answer for the implication
}

void collect(const Ms& m, std::set<int>& frags, std::set<unsigned>& keys, unsigned& nodes, bool& dup)
{
    frags.insert(m.f == WRAP ? 100 + m.wrap : int(m.f));
    ++nodes;
    for (unsigned k : m.keys) if (!keys.insert(k).second) dup = true;
    for (auto& sub : m.subs) collect(sub, frags, keys, nodes, dup);
}

// ------------------------------------------------------------------------------------------------ repo-side parsing context
struct ParseCtx {
    using Key = CPubKey;
    miniscript::MiniscriptContext ctx;
    bool KeyCompare(const Key& a, const Key& b) const { return a < b; }
    std::optional<Key> FromString(std::span<const char>& in) const
    {
        if (in.size() != 1 || in[0] < 'A' || in[0] >= char('A' + NKEYS)) return {};
        return g.pubs[size_t(in[0] - 'A')];
    }
    std::optional<std::string> ToString(const Key& key, bool& has_priv) const
    {
        has_priv = false;
        for (unsigned i = 0; i < NKEYS; ++i) if (g.pubs[i] == key) return key_name(i);
        return HexStr(key);
    }
    std::vector<unsigned char> ToPKBytes(const Key& key) const
    {
        if (!miniscript::IsTapscript(ctx)) return {key.begin(), key.end()};
        XOnlyPubKey x{key};
        return {x.begin(), x.end()};
    }
    std::vector<unsigned char> ToPKHBytes(const Key& key) const
    {
        if (!miniscript::IsTapscript(ctx)) { auto h = Hash160(key); return {h.begin(), h.end()}; }
        auto h = Hash160(XOnlyPubKey{key});
        return {h.begin(), h.end()};
    }
    template <typename I> std::optional<Key> FromPKBytes(I, I) const { return {}; }
    template <typename I> std::optional<Key> FromPKHBytes(I, I) const { return {}; }
    miniscript::MiniscriptContext MsContext() const { return ctx; }
};

struct SpendCase {
    CMutableTransaction tx;
    unsigned nin{0};
    std::vector<CTxOut> spent;
};

/** Fresh verification of input `i` of the final transaction under the standard flags. */
bool verify_input(const SpendCase& sc, unsigned i, ScriptError& err)
{
    const CTransaction tx(sc.tx);
    PrecomputedTransactionData txdata;
    txdata.Init(tx, std::vector<CTxOut>(sc.spent));
    TransactionSignatureChecker checker(&tx, i, sc.spent[i].nValue, txdata, MissingDataBehavior::FAIL);
    return VerifyScript(tx.vin[i].scriptSig, sc.spent[i].scriptPubKey, &tx.vin[i].scriptWitness, STANDARD_SCRIPT_VERIFY_FLAGS, checker, &err);
}

void gen_world_and_tx(verif::Src& s, World& w, SpendCase& sc)
{
    // availability: each key signable with p~1/2, its pubkey known with p~3/4 (always if signable & lucky), preimages p~1/2
    uint32_t kmask = s.ConsumeIntegral<uint16_t>(), pmask = s.ConsumeIntegral<uint16_t>() | s.ConsumeIntegral<uint16_t>();
    if (s.chance(40)) kmask = 0xffff;
    if (s.chance(24)) kmask = 0;
    for (unsigned i = 0; i < NKEYS; ++i) {
        if (kmask >> i & 1) w.sign_keys.insert(i);
        if ((pmask >> i & 1) || ((kmask >> i & 1) && !s.chance(32))) w.known_pubs.insert(i);
    }
    unsigned hmask = unsigned(s.index(8));
    for (unsigned i = 0; i < NHASH; ++i) if (hmask >> i & 1) w.preimages.insert(i);
    w.tx_version = s.chance(24) ? 1 : 2;
    w.tx_locktime = s.pick<uint32_t>({0, 1, 100, 499999999, 500000000, 500000100, 0xffffffffu});
    w.in_sequence = s.pick<uint32_t>({0xffffffffu, 0xfffffffeu, 0, 1, 5, 10, 65535, (1u << 22) | 1, (1u << 22) | 10, (1u << 31) | 10, 0x00010005});
    sc.tx.version = w.tx_version;
    sc.tx.nLockTime = w.tx_locktime;
    unsigned nin_total = 1 + unsigned(s.index(2));
    sc.nin = unsigned(s.index(nin_total));
    for (unsigned i = 0; i < nin_total; ++i) {
        CTxIn in(COutPoint(Txid::FromUint256(uint256(uint8_t(0x51 + i))), i));
        in.nSequence = i == sc.nin ? w.in_sequence : 0xfffffffd;
        sc.tx.vin.push_back(in);
        sc.spent.emplace_back(CAmount(70000 + i), CScript() << OP_1 << valtype(32, uint8_t(0x44 + i))); // placeholder, an arbitrary taproot-looking output
    }
    sc.tx.vout.emplace_back(CAmount(60000), CScript() << OP_0 << valtype(20, 0x66));
}

FlatSigningProvider make_provider(const World& w)
{
    FlatSigningProvider p;
    for (unsigned i : w.sign_keys) p.keys[g.pubs[i].GetID()] = g.keys[i];
    for (unsigned i : w.known_pubs) p.pubkeys[g.pubs[i].GetID()] = g.pubs[i];
    return p;
}

} // namespace

VERIF_TARGET(c46_miniscript, init, 24, 200,
             "a miniscript expression from a type-directed generator over my own AST (pk, pkh, older, after, 4 hash kinds, multi/multi_a, and_v, and_b, or_b, or_c, or_d, "
             "or_i, andor, thresh, wrappers a s d v j n t l u; <= 24 nodes), parsed by the repository, turned into a P2WSH / P2SH-P2WSH / tapscript-leaf output; a "
             "signing provider holding a random subset of 10 private keys, of the public keys (for pkh) and of the hash preimages; a transaction whose version, "
             "nLockTime and nSequence satisfy some of the timelocks; ~6% of P2WSH cases get an ops-limit trap (chain of > 201 opcodes). ProduceSignature is run once. "
             "non-trivial = the expression has >= 1 combinator and the verdict is decided (complete, or unsatisfiable by the model); "
             "distinct = by (context, fragment set, node count, verdict, model verdict)")
{
    World w;
    SpendCase sc;
    gen_world_and_tx(s, w, sc);
    const bool tapscript = s.boolean();
    GenCtx gc{s, tapscript, 4 + unsigned(s.index(20))};
    Ms root = gen(gc, 'B', 0, 1 + unsigned(s.index(5)));
    bool ops_trap = false;
    if (!tapscript && s.chance(16)) {
        // > 201 non-push opcodes: valid miniscript syntax, but no satisfaction can pass the interpreter's opcode limit
        ops_trap = true;
        w.tx_version = 2; w.in_sequence = 5; sc.tx.version = 2; sc.tx.vin[sc.nin].nSequence = 5; // older(1) holds: only the opcode count stands in the way
        unsigned n = 95 + unsigned(s.index(20));
        for (unsigned i = 0; i < n; ++i) {
            Ms tl = leaf(OLDER); tl.k = 1;
            Ms m; m.f = AND_V; m.subs = {wrap('v', tl, false), std::move(root)};
            settype(m, false);
            root = std::move(m);
        }
    }
    const std::string text = to_string(root);
    st.note(tapscript ? "tapscript " : "p2wsh ", text);
    ParseCtx pctx{tapscript ? miniscript::MiniscriptContext::TAPSCRIPT : miniscript::MiniscriptContext::P2WSH};
    auto node = miniscript::FromString(text, pctx);
    st.cls(tapscript ? "ctx:tapscript" : "ctx:p2wsh");
    if (!node || !node->IsValidTopLevel()) {
        st.cls(node ? "rejected:type-check" : "rejected:parse");
        st.mix(uint64_t(0xbad)); st.mix(uint64_t(tapscript));
        st.note("rejected by the repository's parser/type checker");
        return;
    }
    const CScript script = node->ToScript(pctx);
    FlatSigningProvider provider = make_provider(w);
    SignatureData sigdata;
    for (unsigned i : w.preimages) {
        sigdata.sha256_preimages[g.sha256[i]] = g.preimage[i];
        sigdata.hash256_preimages[g.hash256[i]] = g.preimage[i];
        sigdata.ripemd160_preimages[g.ripemd160[i]] = g.preimage[i];
        sigdata.hash160_preimages[g.hash160[i]] = g.preimage[i];
    }
    CScript spk;
    bool keypath_possible = false;
    unsigned other_leaf_key = 0;
    bool other_leaf = false;
    if (!tapscript) {
        spk = GetScriptForDestination(WitnessV0ScriptHash(script));
        provider.scripts[CScriptID(script)] = script;
        if (s.chance(48)) {
            CScript redeem = spk;
            provider.scripts[CScriptID(redeem)] = redeem;
            spk = GetScriptForDestination(ScriptHash(redeem));
            st.cls("wrapped:p2sh");
        }
    } else {
        // xonly-hash -> key lookups (pkh in tapscript) come from the spend data, as a PSBT would provide them
        for (unsigned i : w.known_pubs) { XOnlyPubKey x{g.pubs[i]}; sigdata.tap_pubkeys.emplace(Hash160(x), x); }
        unsigned internal = unsigned(s.index(NKEYS));
        if (w.sign_keys.count(internal) && s.chance(200)) { // mostly an internal key nobody can sign for, so that the script path decides
            for (unsigned i = 0; i < NKEYS; ++i) if (!w.sign_keys.count(i)) { internal = i; break; }
        }
        TaprootBuilder builder;
        other_leaf = s.boolean();
        if (other_leaf) {
            other_leaf_key = unsigned(s.index(NKEYS));
            XOnlyPubKey ox{g.pubs[other_leaf_key]};
            CScript other = CScript() << ToByteVector(ox) << OP_CHECKSIG;
            if (s.boolean()) builder.Add(1, script, TAPROOT_LEAF_TAPSCRIPT).Add(1, other, TAPROOT_LEAF_TAPSCRIPT);
            else builder.Add(1, other, TAPROOT_LEAF_TAPSCRIPT).Add(1, script, TAPROOT_LEAF_TAPSCRIPT);
        } else {
            builder.Add(0, script, TAPROOT_LEAF_TAPSCRIPT);
        }
        if (!builder.IsComplete()) return;
        builder.Finalize(XOnlyPubKey{g.pubs[internal]});
        WitnessV1Taproot out = builder.GetOutput();
        spk = GetScriptForDestination(out);
        provider.tr_trees[out] = builder;
        keypath_possible = w.sign_keys.count(internal) > 0;
    }
    sc.spent[sc.nin].scriptPubKey = spk;
    sc.spent[sc.nin].nValue = 70000;

    PrecomputedTransactionData txdata;
    txdata.Init(sc.tx, std::vector<CTxOut>(sc.spent), /*force=*/true);
    const int sighash = tapscript ? s.pick<int>({SIGHASH_DEFAULT, SIGHASH_ALL, SIGHASH_NONE | SIGHASH_ANYONECANPAY}) : s.pick<int>({SIGHASH_ALL, SIGHASH_DEFAULT, SIGHASH_SINGLE});
    MutableTransactionSignatureCreator creator(sc.tx, sc.nin, sc.spent[sc.nin].nValue, &txdata, SignOptions{.sighash_type = sighash});
    const bool ret = ProduceSignature(provider, creator, spk, sigdata);
    UpdateInput(sc.tx.vin[sc.nin], sigdata);

    // ---------------------------------------------------------------- model verdict
    bool model_sat = ref_sat(root, w);
    if (tapscript) {
        if (keypath_possible) model_sat = true;
        if (other_leaf && w.sign_keys.count(other_leaf_key)) model_sat = true;
    }
    st.steps++;
    VCHECK(ret == sigdata.complete, "c46.complete-implies-verify", "ProduceSignature return value differs from SignatureData.complete");
    if (sigdata.complete) {
        ScriptError err = SCRIPT_ERR_UNKNOWN_ERROR;
        bool ok = verify_input(sc, sc.nin, err);
        st.steps++;
        VCHECK(ok, "c46.complete-implies-verify", "complete=true but the spend fails verification:", ScriptErrorString(err), "expr", text.substr(0, 400), tapscript ? "tapscript" : "p2wsh");
    }
    st.steps++;
    if (!model_sat) {
        VCHECK(!sigdata.complete, "c46.unsat-never-complete", "complete=true although the expression is unsatisfiable with the available keys/preimages/timelocks; expr", text.substr(0, 400),
               tapscript ? "tapscript" : "p2wsh", "tx version", w.tx_version, "locktime", w.tx_locktime, "sequence", w.in_sequence);
    }

    // ---------------------------------------------------------------- accounting
    std::set<int> frags; std::set<unsigned> keys; unsigned nodes = 0; bool dup = false;
    collect(root, frags, keys, nodes, dup);
    bool combinator = false;
    for (int f : frags) {
        if (f >= AND_V && f <= THRESH) combinator = true;
        st.cls(std::string("frag:") + (f >= 100 ? std::string("wrap-") + char(f - 100) : FRAG_NAME[f]));
        st.mix(uint64_t(f));
    }
    st.cls(sigdata.complete ? "complete" : "incomplete");
    st.cls(model_sat ? "model:satisfiable" : "model:unsatisfiable");
    if (model_sat && !sigdata.complete) st.cls(ops_trap ? "satisfiable-but-incomplete:ops-trap" : "satisfiable-but-incomplete");
    if (sigdata.complete && tapscript && sigdata.scriptWitness.stack.size() == 1) st.cls("complete:taproot-keypath");
    if (sigdata.complete && tapscript && sigdata.scriptWitness.stack.size() > 1) st.cls("complete:tapscript");
    if (sigdata.complete && !tapscript) st.cls("complete:p2wsh");
    if (ops_trap) st.cls("ops-limit-trap");
    if (dup) st.cls("duplicate-keys");
    if (node->IsSane()) st.cls("sane");
    bool timelock = frags.count(OLDER) || frags.count(AFTER);
    if (timelock) st.cls("has-timelock");
    if (timelock && sigdata.complete) st.cls("complete-with-timelock-in-expr");
    st.cls(nodes >= 8 ? "nodes>=8" : nodes >= 3 ? "nodes3-7" : "nodes<3");
    st.nontrivial = combinator && (sigdata.complete || !model_sat);
    st.mix(uint64_t(tapscript)); st.mix(uint64_t(std::min(nodes, 12u))); st.mix(uint64_t(sigdata.complete)); st.mix(uint64_t(model_sat));
    st.note("nodes=", nodes, " sign_keys=", w.sign_keys.size(), " preimages=", w.preimages.size(), " txver=", w.tx_version, " locktime=", w.tx_locktime, " seq=", w.in_sequence,
            " model=", model_sat ? "sat" : "unsat", " complete=", sigdata.complete);
}

// ------------------------------------------------------------------------------------------------ descriptors + SignTransaction
namespace {
enum DescKind { D_PK, D_PKH, D_WPKH, D_SH_WPKH, D_WSH_MULTI, D_SH_MULTI, D_SH_WSH_MULTI, D_WSH_SORTEDMULTI, D_TR_KEY, D_TR_PK_LEAVES, D_TR_MULTI_A, D_WSH_MINISCRIPT, D_COMBO,
                D_RAW_SH_OVERSIZE, D_BARE_MULTI, D_COUNT };
const char* DESC_NAME[D_COUNT] = {"pk", "pkh", "wpkh", "sh(wpkh)", "wsh(multi)", "sh(multi)", "sh(wsh(multi))", "wsh(sortedmulti)", "tr(key)", "tr(key,{pk,pk})", "tr(key,multi_a)",
                                  "wsh(miniscript)", "combo", "raw-sh-oversize-multisig", "multi"};

struct InModel {
    int kind;
    // satisfiable iff  any_of(alternatives): each alternative = (threshold k, key list)
    std::vector<std::pair<unsigned, std::vector<unsigned>>> alts;
    bool extra_unsat_possible{false}; // model abstains (treated as satisfiable)
};
std::string hexkey(unsigned i) { return HexStr(g.pubs[i % NKEYS]); }
}

VERIF_TARGET(c46_descriptor_sign, init, 24, 160,
             "1-3 outputs produced by descriptors parsed from text (pk, pkh, wpkh, sh(wpkh), wsh/sh/sh(wsh) multi k-of-n, sortedmulti, tr key path, tr with pk leaves, tr with "
             "multi_a, wsh(and_v/or_d/thresh miniscript), combo, bare multi) plus a hand-made P2SH multisig whose redeem script exceeds 520 bytes (signable, never "
             "verifiable); a provider holding the descriptor's public data and a random subset of private keys (j<k and >=k); SignTransaction over all inputs. "
             "Input without error => verifies under STANDARD flags with a fresh checker; fewer than k available keys in every spending alternative => input must have an "
             "error. non-trivial = >= 1 input complete and >= 1 input (of any case part) decided unsatisfiable, or a multisig/script-path input complete; "
             "distinct = by (descriptor kinds, per-input verdicts, sighash)")
{
    World w; // only sign_keys is used here
    uint32_t kmask = s.ConsumeIntegral<uint16_t>();
    if (s.chance(48)) kmask = 0xffff;
    for (unsigned i = 0; i < NKEYS; ++i) if (kmask >> i & 1) w.sign_keys.insert(i);
    unsigned nin = 1 + unsigned(s.index(3));
    SpendCase sc;
    sc.tx.version = 2;
    sc.tx.nLockTime = s.pick<uint32_t>({0, 10});
    FlatSigningProvider provider;
    for (unsigned i : w.sign_keys) { provider.keys[g.pubs[i].GetID()] = g.keys[i]; provider.keys[g.upubs[i].GetID()] = g.keys[i]; }
    std::vector<InModel> models;
    std::map<COutPoint, Coin> coins;
    for (unsigned i = 0; i < nin; ++i) {
        InModel im;
        im.kind = int(s.index(D_COUNT));
        unsigned a = unsigned(s.index(NKEYS)), n = 2 + unsigned(s.index(3)), k = 1 + unsigned(s.index(n));
        std::vector<unsigned> ks;
        for (unsigned j = 0; j < n; ++j) ks.push_back((a + j) % NKEYS);
        auto keylist = [&](const std::vector<unsigned>& v) { std::string r; for (unsigned x : v) r += "," + hexkey(x); return r; };
        std::string desc;
        CScript raw_spk;
        switch (im.kind) {
        case D_PK: desc = "pk(" + hexkey(a) + ")"; im.alts = {{1, {a}}}; break;
        case D_PKH: desc = "pkh(" + hexkey(a) + ")"; im.alts = {{1, {a}}}; break;
        case D_WPKH: desc = "wpkh(" + hexkey(a) + ")"; im.alts = {{1, {a}}}; break;
        case D_SH_WPKH: desc = "sh(wpkh(" + hexkey(a) + "))"; im.alts = {{1, {a}}}; break;
        case D_WSH_MULTI: desc = "wsh(multi(" + std::to_string(k) + keylist(ks) + "))"; im.alts = {{k, ks}}; break;
        case D_SH_MULTI: desc = "sh(multi(" + std::to_string(k) + keylist(ks) + "))"; im.alts = {{k, ks}}; break;
        case D_SH_WSH_MULTI: desc = "sh(wsh(multi(" + std::to_string(k) + keylist(ks) + ")))"; im.alts = {{k, ks}}; break;
        case D_WSH_SORTEDMULTI: desc = "wsh(sortedmulti(" + std::to_string(k) + keylist(ks) + "))"; im.alts = {{k, ks}}; break;
        case D_BARE_MULTI: { std::vector<unsigned> k3(ks.begin(), ks.begin() + std::min<size_t>(3, ks.size())); k = std::min<unsigned>(k, unsigned(k3.size())); desc = "multi(" + std::to_string(k) + keylist(k3) + ")"; im.alts = {{k, k3}}; break; }
        case D_TR_KEY: desc = "tr(" + hexkey(a) + ")"; im.alts = {{1, {a}}}; break;
        case D_TR_PK_LEAVES: desc = "tr(" + hexkey(a) + ",{pk(" + hexkey(a + 1) + "),pk(" + hexkey(a + 2) + ")})"; im.alts = {{1, {a}}, {1, {(a + 1) % NKEYS}}, {1, {(a + 2) % NKEYS}}}; break;
        case D_TR_MULTI_A: desc = "tr(" + hexkey(a + 5) + ",multi_a(" + std::to_string(k) + keylist(ks) + "))"; im.alts = {{1, {(a + 5) % NKEYS}}, {k, ks}}; break;
        case D_WSH_MINISCRIPT: {
            unsigned b = (a + 1) % NKEYS, c = (a + 2) % NKEYS;
            switch (s.index(3)) {
            case 0: desc = "wsh(and_v(v:pk(" + hexkey(a) + "),pk(" + hexkey(b) + ")))"; im.alts = {{2, {a, b}}}; break;
            case 1: desc = "wsh(or_d(pk(" + hexkey(a) + "),and_v(v:pk(" + hexkey(b) + "),pk(" + hexkey(c) + "))))"; im.alts = {{1, {a}}, {2, {b, c}}}; break;
            default: desc = "wsh(thresh(2,pk(" + hexkey(a) + "),s:pk(" + hexkey(b) + "),s:pk(" + hexkey(c) + ")))"; im.alts = {{2, {a, b, c}}}; break;
            }
            break;
        }
        case D_COMBO: desc = "combo(" + hexkey(a) + ")"; im.alts = {{1, {a}}}; break;
        case D_RAW_SH_OVERSIZE: {
            // k-of-9 with uncompressed keys: redeem script = 3 + 9*66 = 597 bytes > 520: signatures can be made, the spend can never verify
            CScript redeem = CScript() << CScript::EncodeOP_N(int(std::min(k, 9u)));
            std::vector<unsigned> k9;
            for (unsigned j = 0; j < 9; ++j) { redeem << ToByteVector(g.upubs[(a + j) % NKEYS]); k9.push_back((a + j) % NKEYS); }
            redeem << OP_9 << OP_CHECKMULTISIG;
            provider.scripts[CScriptID(redeem)] = redeem;
            for (unsigned j : k9) provider.pubkeys[g.upubs[j].GetID()] = g.upubs[j];
            raw_spk = GetScriptForDestination(ScriptHash(redeem));
            im.alts = {}; // never satisfiable (push size limit)
            break;
        }
        }
        CScript spk;
        if (im.kind == D_RAW_SH_OVERSIZE) {
            spk = raw_spk;
        } else {
            FlatSigningProvider parse_out;
            std::string error;
            auto parsed = Parse(desc, parse_out, error, /*require_checksum=*/false);
            VCHECK(!parsed.empty() && parsed[0], "c46.harness", "descriptor does not parse:", desc, error);
            std::vector<CScript> scripts;
            FlatSigningProvider expand_out;
            VCHECK(parsed[0]->Expand(0, parse_out, scripts, expand_out) && !scripts.empty(), "c46.harness", "descriptor does not expand:", desc);
            provider.Merge(std::move(expand_out)); // public data only: pubkeys, scripts, taproot trees, origins
            spk = scripts[s.index(scripts.size())]; // combo yields several
        }
        CTxIn in(COutPoint(Txid::FromUint256(uint256(uint8_t(0x61 + i))), i));
        in.nSequence = 0xfffffffd;
        sc.tx.vin.push_back(in);
        sc.spent.emplace_back(CAmount(30000 + i), spk);
        coins[in.prevout] = Coin(sc.spent.back(), 1, false);
        models.push_back(im);
        st.cls(std::string("desc:") + DESC_NAME[im.kind]);
        st.mix(uint64_t(im.kind));
        st.note(im.kind == D_RAW_SH_OVERSIZE ? std::string("raw oversize p2sh multisig") : desc);
    }
    sc.tx.vout.emplace_back(CAmount(1000), CScript() << OP_0 << valtype(20, 0x55));
    if (s.boolean()) sc.tx.vout.emplace_back(CAmount(2000), CScript() << OP_0 << valtype(20, 0x56));
    const int sighash = s.pick<int>({SIGHASH_DEFAULT, SIGHASH_ALL, SIGHASH_ALL | SIGHASH_ANYONECANPAY, SIGHASH_SINGLE, SIGHASH_NONE});
    std::map<int, bilingual_str> errors;
    const bool all = SignTransaction(sc.tx, &provider, coins, SignOptions{.sighash_type = sighash}, errors);
    st.steps++;
    VCHECK(all == errors.empty(), "c46.complete-implies-verify", "SignTransaction returned", all, "with", errors.size(), "input errors");
    unsigned n_complete = 0, n_unsat = 0;
    bool strong = false;
    for (unsigned i = 0; i < nin; ++i) {
        const bool complete = errors.count(int(i)) == 0;
        bool model_sat = false;
        for (auto& [k, ks] : models[i].alts) {
            unsigned cnt = 0;
            for (unsigned x : ks) cnt += w.sign_keys.count(x) > 0;
            if (cnt >= k) model_sat = true;
        }
        ScriptError err = SCRIPT_ERR_UNKNOWN_ERROR;
        st.steps += 2;
        if (complete) {
            bool ok = verify_input(sc, i, err);
            VCHECK(ok, "c46.complete-implies-verify", "input", i, DESC_NAME[models[i].kind], "reported complete but fails verification:", ScriptErrorString(err), "sighash", sighash);
            ++n_complete;
            if (models[i].alts.size() > 1 || (models[i].alts.size() == 1 && models[i].alts[0].second.size() > 1)) strong = true;
            st.cls(std::string("complete:") + DESC_NAME[models[i].kind]);
        }
        if (!model_sat) {
            VCHECK(!complete, "c46.unsat-never-complete", "input", i, DESC_NAME[models[i].kind], "reported complete although too few keys are available");
            ++n_unsat;
            st.cls(std::string("unsat:") + DESC_NAME[models[i].kind]);
        }
        if (model_sat && !complete) st.cls("satisfiable-but-incomplete");
        st.mix(uint64_t(complete)); st.mix(uint64_t(model_sat));
    }
    st.mix(uint64_t(sighash));
    if (all) st.cls("all-inputs-complete");
    if (n_complete) st.cls("some-input-complete");
    if (n_unsat) st.cls("some-input-unsatisfiable");
    st.nontrivial = (n_complete >= 1 && n_unsat >= 1) || strong;
    st.note("sign_keys=", w.sign_keys.size(), " sighash=", sighash, " complete=", n_complete, "/", nin, " unsat-by-model=", n_unsat);
}
