"""Per-property stage definitions for the orchestrator (bin/check.py), one file per property in bin/props.d/CNN.py.

Each file defines SPEC (level, assumptions, stages) and META (manifest text: level_text, technique, level_note, engine).
stage keys: kind (gen|enum|hyp|custom), binary, target, cases_quick/cases_thorough, max_seconds_*, min_cases_*, floors
(class -> minimal fraction of cases, else the run is reported as GENERATOR-DEGENERATE), tiers, workers_*, rule, cfg (san|tsan),
needs ([(cfg, ninja_target), ...] extra things to build), replays_needed/replays_total.
"""
import glob
import os


def gen(binary, target, q, t, **kw):
    d = {"kind": "gen", "binary": binary, "target": target, "cases_quick": q, "cases_thorough": t}
    d.update(kw)
    return d


def enum(binary, target, **kw):
    d = {"kind": "enum", "binary": binary, "target": target}
    d.update(kw)
    return d


def fuzz(binary, target, seconds_thorough, **kw):
    """libFuzzer campaign (coverage-guided, fz build tree) on an E1 target; thorough tier only unless tiers= says otherwise."""
    d = {"kind": "fuzz", "binary": binary, "target": target, "seconds_thorough": seconds_thorough, "tiers": ("thorough",), "cfg": "fz"}
    d.update(kw)
    return d


def hyp(module, q, t, **kw):
    """Hypothesis stage: py/<module> run by python3-vt with the worker protocol of py/e2.py."""
    d = {"kind": "hyp", "module": module, "cases_quick": q, "cases_thorough": t}
    d.update(kw)
    return d


def custom(script, q, t, **kw):
    """Any executable (path relative to /verif) speaking the worker protocol (see bin/check.py worker_cmd)."""
    d = {"kind": "custom", "script": script, "cases_quick": q, "cases_thorough": t}
    d.update(kw)
    return d


PROPS = {}
META = {}
for _f in sorted(glob.glob(os.path.join(os.path.dirname(os.path.abspath(__file__)), "props.d", "C*.py"))):
    _ns = {"gen": gen, "enum": enum, "hyp": hyp, "custom": custom, "fuzz": fuzz}
    exec(compile(open(_f).read(), _f, "exec"), _ns)
    _pid = os.path.splitext(os.path.basename(_f))[0]
    if _ns.get("SPEC"):
        PROPS[_pid] = _ns["SPEC"]
        META[_pid] = _ns.get("META", {})
