// C45 (address part) -- addresses round-trip per network and are never decoded for another network; a bech32/bech32m string of
// up to 90 characters with 1..4 substituted characters never passes the checksum it was encoded with.
//
// c45_address: destination of every addressable type (P2PKH, P2SH, P2WPKH, P2WSH, P2TR, P2A, unknown witness programs v1..v16 of
//   2..40 bytes) on a generated network N1:
//   c45.addr-roundtrip     DecodeDestination(EncodeDestination(d)) == d on N1
//   c45.addr-other-net     on every other network N2 the string is invalid when the address format of N2 differs from N1's
//                          (own table of the documented formats: base58 version bytes and bech32 HRP per network), and decodes to the
//                          same destination when the two networks share the format (testnet3/testnet4/signet share everything;
//                          regtest shares the base58 versions with them)
//   c45.addr-format        bech32 for v0, bech32m for v1+, HRP of the network in front (BIP173/BIP350)
// c45_bech32: bech32::Encode(enc, hrp, values) with generated hrp/values (total length <= 90), then
//   c45.bech32-roundtrip   Decode gives back (enc, hrp, values)
//   c45.bech32-bch         every single substitution in the data part (all positions x all 31 other characters) and sampled 2-, 3-,
//                          4-subsets of positions with generated replacement characters: Decode(...).encoding != enc.
//                          Deterministic guarantee: the data part is at most 88 symbols, the generator polynomial detects every error
//                          pattern of weight <= 4 confined to a window of 89 symbols (BIP173), and a polynomial code's detection only
//                          depends on relative positions. HRP characters are not substituted (one HRP character feeds two symbols).
#include <engine/verif.h>

#include <addresstype.h>
#include <bech32.h>
#include <chainparams.h>
#include <key.h>
#include <key_io.h>
#include <pubkey.h>
#include <script/script.h>
#include <util/chaintype.h>
#include <util/strencodings.h>

#include <algorithm>
#include <memory>
#include <string>
#include <vector>

namespace {

struct NetFormat {
    ChainType chain;
    const char* name;
    int p2pkh, p2sh;     // base58 version bytes
    const char* hrp;
};
// Documented address formats (developer reference / BIP173 / BIP325 / BIP94): NOT read from CChainParams.
const NetFormat kNets[5] = {
    {ChainType::MAIN, "main", 0, 5, "bc"},
    {ChainType::TESTNET, "test", 111, 196, "tb"},
    {ChainType::TESTNET4, "testnet4", 111, 196, "tb"},
    {ChainType::SIGNET, "signet", 111, 196, "tb"},
    {ChainType::REGTEST, "regtest", 111, 196, "bcrt"},
};

std::unique_ptr<ECC_Context> g_ecc;
void init_c45_addr()
{
    if (!g_ecc) g_ecc = std::make_unique<ECC_Context>();
    SelectParams(ChainType::MAIN);
}

const std::string kBech32Chars = "qpzry9x8gf2tvdw0s3jn54khce6mua7l";

} // namespace

VERIF_TARGET(c45_address, init_c45_addr, 48, 64,
             "one destination (type, payload, network generated): encode/decode round trip on its network, decode on the 4 other networks "
             "(invalid unless the documented formats coincide); non-trivial = every case (5 networks decoded); distinct = type x network x "
             "program length x version")
{
    const int n1 = s.range<int>(0, 4);
    const int type = s.range<int>(0, 6);
    std::vector<unsigned char> payload = s.bytes(40);
    payload.resize(40, 0);
    CTxDestination d;
    bool base58 = false;
    int wit_version = -1;
    switch (type) {
    case 0: d = PKHash(uint160(std::span<const unsigned char>(payload.data(), 20))); base58 = true; st.cls("p2pkh"); break;
    case 1: d = ScriptHash(uint160(std::span<const unsigned char>(payload.data(), 20))); base58 = true; st.cls("p2sh"); break;
    case 2: d = WitnessV0KeyHash(uint160(std::span<const unsigned char>(payload.data(), 20))); wit_version = 0; st.cls("p2wpkh"); break;
    case 3: d = WitnessV0ScriptHash(uint256(std::span<const unsigned char>(payload.data(), 32))); wit_version = 0; st.cls("p2wsh"); break;
    case 4: d = WitnessV1Taproot(XOnlyPubKey(std::span<const unsigned char>(payload.data(), 32))); wit_version = 1; st.cls("p2tr"); break;
    case 5: d = PayToAnchor(); wit_version = 1; st.cls("p2a"); break;
    default: {
        int ver = s.range<int>(1, 16);
        int len = s.range<int>(2, 40);
        if (ver == 1 && len == 32) len = 33;                          // that is P2TR
        std::vector<unsigned char> prog(payload.begin(), payload.begin() + len);
        if (ver == 1 && len == 2 && prog[0] == 0x4e && prog[1] == 0x73) prog[1] = 0x74;   // that is P2A
        d = WitnessUnknown(ver, prog);
        wit_version = ver;
        st.cls("witness-unknown");
        st.mix(uint64_t(ver) * 64 + len);
        break;
    }
    }
    st.mix(uint64_t(type) * 8 + n1);

    SelectParams(kNets[n1].chain);
    const std::string addr = EncodeDestination(d);
    st.note(kNets[n1].name, " ", addr);
    VCHECK(!addr.empty(), "c45.addr-roundtrip", "no address for an addressable destination type", type);
    {
        std::string err;
        const CTxDestination back = DecodeDestination(addr, err);
        st.steps++;
        VCHECK(IsValidDestination(back) && back == d, "c45.addr-roundtrip", "network", kNets[n1].name, addr, "error", err);
    }
    if (!base58) {
        // BIP173 / BIP350 format
        const std::string front = std::string(kNets[n1].hrp) + "1";
        const auto dec = bech32::Decode(addr);
        st.steps++;
        VCHECK(addr.compare(0, front.size(), front) == 0 && dec.hrp == kNets[n1].hrp, "c45.addr-format", "HRP", addr, kNets[n1].name);
        VCHECK(dec.encoding == (wit_version == 0 ? bech32::Encoding::BECH32 : bech32::Encoding::BECH32M), "c45.addr-format", "checksum kind", addr);
        VCHECK(!dec.data.empty() && dec.data[0] == wit_version, "c45.addr-format", "witness version symbol", addr);
    }
    for (int n2 = 0; n2 < 5; ++n2) {
        if (n2 == n1) continue;
        SelectParams(kNets[n2].chain);
        std::string err;
        const CTxDestination other = DecodeDestination(addr, err);
        bool same_format;
        if (base58) same_format = (type == 0 ? kNets[n1].p2pkh == kNets[n2].p2pkh : kNets[n1].p2sh == kNets[n2].p2sh);
        else same_format = std::string(kNets[n1].hrp) == kNets[n2].hrp;
        st.steps++;
        if (same_format) {
            st.cls("other-net:shared-format");
            VCHECK(IsValidDestination(other) && other == d, "c45.addr-other-net", "networks share the format but decode differently", addr,
                   kNets[n1].name, "->", kNets[n2].name, err);
        } else {
            st.cls("other-net:invalid");
            VCHECK(!IsValidDestination(other), "c45.addr-other-net", "address decoded on a network with a different format", addr, kNets[n1].name,
                   "->", kNets[n2].name);
            VCHECK(!IsValidDestinationString(addr), "c45.addr-other-net", "IsValidDestinationString on a network with a different format", addr,
                   kNets[n1].name, "->", kNets[n2].name);
        }
    }
    SelectParams(ChainType::MAIN);
    st.nontrivial = true;
}

VERIF_TARGET(c45_bech32, init_c45_addr, 16, 200,
             "bech32/bech32m string from generated hrp (1..83 chars, or a network hrp) and values, total <= 90 chars; all single "
             "substitutions in the data part + sampled 2/3/4-position substitutions never decode with the original encoding; "
             "non-trivial = every case; distinct = encoding x hrp length x data length")
{
    const bech32::Encoding enc = s.boolean() ? bech32::Encoding::BECH32M : bech32::Encoding::BECH32;
    std::string hrp;
    const int hk = s.range<int>(0, 5);
    if (hk <= 2) hrp = s.pick<const char*>({"bc", "tb", "bcrt"});
    else {
        int hl = hk == 3 ? s.range<int>(1, 8) : s.range<int>(1, 83);
        for (int i = 0; i < hl; ++i) {
            char c = char(s.range<int>(33, 126));
            if (c >= 'A' && c <= 'Z') c = char(c + 32);
            hrp.push_back(c);
        }
    }
    // total = hrp + 1 + data + 6 <= 90
    const int max_data = 90 - 7 - int(hrp.size());
    int dl = s.chance(64) ? max_data : s.range<int>(0, max_data);
    if (s.chance(40)) dl = std::min(max_data, s.pick<int>({33, 53, 59}));   // address-sized payloads
    std::vector<uint8_t> values;
    for (int i = 0; i < dl; ++i) values.push_back(uint8_t(s.range<int>(0, 31)));
    const std::string str = bech32::Encode(enc, hrp, values);
    st.note(enc == bech32::Encoding::BECH32 ? "bech32 " : "bech32m ", str);
    VCHECK(str.size() == hrp.size() + 1 + values.size() + 6 && str.size() <= 90, "c45.bech32-roundtrip", "length", str.size(), str);
    {
        const auto dec = bech32::Decode(str);
        st.steps++;
        VCHECK(dec.encoding == enc && dec.hrp == hrp && dec.data == values, "c45.bech32-roundtrip", str);
    }
    const size_t data_start = hrp.size() + 1;
    const size_t data_len = str.size() - data_start;
    auto must_fail = [&](const std::string& m, const char* what) {
        const auto dec = bech32::Decode(m);
        st.steps++;
        VCHECK(dec.encoding != enc, "c45.bech32-bch", what, "original", str, "corrupted", m);
    };
    // all single substitutions
    for (size_t p = 0; p < data_len; ++p) {
        std::string m = str;
        for (char c : kBech32Chars) {
            if (c == str[data_start + p]) continue;
            m[data_start + p] = c;
            must_fail(m, "1 substitution");
        }
    }
    // sampled 2..4 subsets: positions generated, also clustered (burst) and spread to the window ends
    const int rounds = 60;
    for (int r = 0; r < rounds; ++r) {
        const int k = 2 + (r % 3);
        std::vector<size_t> pos;
        const int mode = s.range<int>(0, 2);
        size_t base = s.index(data_len);
        for (int i = 0; i < k; ++i) {
            size_t p;
            if (mode == 0) p = s.index(data_len);
            else if (mode == 1) p = (base + s.index(8)) % data_len;          // burst
            else p = (i % 2) ? data_len - 1 - s.index(std::min<size_t>(4, data_len)) : s.index(std::min<size_t>(4, data_len));   // ends
            while (std::find(pos.begin(), pos.end(), p) != pos.end()) p = (p + 1) % data_len;
            pos.push_back(p);
        }
        std::string m = str;
        for (size_t p : pos) {
            char c = kBech32Chars[s.index(32)];
            if (c == str[data_start + p]) c = kBech32Chars[(kBech32Chars.find(c) + 1 + s.index(31)) % 32];
            m[data_start + p] = c;
        }
        must_fail(m, "2-4 substitutions");
        // the same error pattern must also not turn the string into ... the same string
        VCHECK(m != str, "c45.generator", "substitution did not change the string");
    }
    st.cls(enc == bech32::Encoding::BECH32 ? "bech32" : "bech32m");
    if (str.size() == 90) st.cls("len=90");
    st.nontrivial = data_len >= 4;
    st.mix(uint64_t(enc == bech32::Encoding::BECH32) + 2 * hrp.size() + 256 * data_len);
}
