# C05: stage list (what ./check C05 quick|thorough runs) and manifest text. Helpers gen()/enum()/hyp()/custom() come from props.py.
SPEC = {'level': 'exploration',
 'assumptions': ['own timelock model (kits/consensus_ref RefTimelocks: nLockTime rule, BIP113 cutoff, BIP68 height/time locks from the ledger\'s own median-time-past, 100-confirmation maturity) is the reference; '
                 'the probe transaction is valid in every other respect by construction (harness keys, no CLTV/CSV opcodes)',
                 'CSV/BIP113 activation = block height >= N for -testactivationheight=csv@N (regtest semantics); chains of 110..140 regtest blocks, time-type locks up to a few 512 s steps'],
 'stages': [gen('vh_c05', 'c05_timelocks', 560, 9000, min_cases_quick=60, max_seconds_quick=900, max_seconds_thorough=7200,
                floors={'near-boundary': 0.5, 'accept': 0.4, 'reject:absolute': 0.3, 'reject:maturity': 0.12, 'reject:relative': 0.05, 'rel-time': 0.2, 'rel-height': 0.3,
                        'csv-inactive': 0.1, 're-evaluated': 0.2, 'reorg': 0.15},
                rule='timelock probes; non-trivial = some probe within 1 unit (block / second / 512 s step / confirmation) of a lock boundary')]}

META = {'level_text': 'Generated regtest chains with random block timestamps (so median-time-past differs from block time) and probe blocks holding one transaction whose nLockTime / per-input '
               'nSequence / version / coinbase-spend depth sit at and around the satisfaction boundary, before and after CSV activation, re-judged after the chain grows and after reorgs '
               'that change heights and MTPs. TestBlockValidity and ProcessNewBlock verdicts must equal an independent timelock model in both directions, the reject reason must belong to a '
               'violated rule, and rejected blocks must leave tip and hash_serialized unchanged. Exploration over bounded chains.',
 'technique': 'property-based testing against an independent reference model (BIP68/BIP113/nLockTime/maturity), boundary-directed generation',
 'level_note': 'trusted base: RefLedger median-time-past and block tree, the 60-line RefTimelocks model, harness block/transaction builder'}
