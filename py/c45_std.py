#!/usr/bin/env python3
"""C45 (engine E2 part) -- key derivation and addresses match the standards.

C++ (through sutd) versus independent Python:
  bip32      CExtKey::SetSeed / Derive chains, Neuter, CExtPubKey::Derive  vs  an own BIP32 (written from the BIP: CKDpriv, CKDpub,
             serialization) on test_framework.crypto.secp256k1 (GE, FAST_G) + hmac/hashlib + test_framework ripemd160. Nothing is
             shared with the C++ side. The own BIP32 reproduces the BIP's test vectors 1-3 at import.
  bech32dec  bech32::Decode on generated / corrupted strings  ==  segwit_addr.bech32_decode (validity, encoding, hrp, values);
             for 1..4 substitutions in the data part additionally: never the original encoding (BCH guarantee)
  bech32enc  bech32::Encode == segwit_addr.bech32_encode
  addr       EncodeDestination(script) on a generated network == address computed in Python (segwit_addr.encode_segwit_address /
             own Base58Check with the documented version bytes); DecodeDestination of it on all five networks == expected (same
             script on networks sharing the format, invalid elsewhere); DecodeDestination of corrupted addresses == Python verdict
             (segwit_addr.decode_segwit_address / own Base58Check decoder)
Non-trivial: bip32 = path mixes hardened and unhardened steps; bech32dec/addr = a corrupted or cross-network string was judged;
bech32enc = >= 1 value. Shape = kind + structure (step kinds / mutation kinds / type, network, lengths).
"""
import hashlib
import hmac

from hypothesis import strategies as st

import e2
from test_framework import segwit_addr
from test_framework.crypto import secp256k1
from test_framework.crypto.ripemd160 import ripemd160

N = secp256k1.GE.ORDER

# ----------------------------------------------------------------------------------------------------------------
# own BIP32 (from the BIP text)


def point(k):
    return secp256k1.FAST_G.mul(k) if hasattr(secp256k1, "FAST_G") else k * secp256k1.G


def ser_p(P):
    return P.to_bytes_compressed()


def hash160(b):
    return ripemd160(hashlib.sha256(b).digest())


class XPrv:
    def __init__(self, k, c, depth=0, fpr=bytes(4), child=0):
        self.k, self.c, self.depth, self.fpr, self.child = k, c, depth, fpr, child

    def pub(self):
        return XPub(point(self.k), self.c, self.depth, self.fpr, self.child)

    def ser(self):
        return bytes([self.depth]) + self.fpr + self.child.to_bytes(4, "big") + self.c + b"\x00" + self.k.to_bytes(32, "big")

    def ckd(self, i):
        """CKDpriv. None when BIP32 declares the child invalid (or the depth byte would overflow)."""
        if self.depth >= 255:
            return None
        P = ser_p(point(self.k))
        data = (b"\x00" + self.k.to_bytes(32, "big") if i >= 0x80000000 else P) + i.to_bytes(4, "big")
        I = hmac.new(self.c, data, hashlib.sha512).digest()
        il = int.from_bytes(I[:32], "big")
        if il >= N:
            return None
        k = (il + self.k) % N
        if k == 0:
            return None
        return XPrv(k, I[32:], self.depth + 1, hash160(P)[:4], i)


class XPub:
    def __init__(self, P, c, depth, fpr, child):
        self.P, self.c, self.depth, self.fpr, self.child = P, c, depth, fpr, child

    def ser(self):
        return bytes([self.depth]) + self.fpr + self.child.to_bytes(4, "big") + self.c + ser_p(self.P)

    def ckd(self, i):
        """CKDpub (unhardened only)."""
        assert i < 0x80000000
        if self.depth >= 255:
            return None
        sp = ser_p(self.P)
        I = hmac.new(self.c, sp + i.to_bytes(4, "big"), hashlib.sha512).digest()
        il = int.from_bytes(I[:32], "big")
        if il >= N:
            return None
        Q = point(il) + self.P
        if Q.infinity:
            return None
        return XPub(Q, I[32:], self.depth + 1, hash160(sp)[:4], i)


def master(seed):
    I = hmac.new(b"Bitcoin seed", seed, hashlib.sha512).digest()
    k = int.from_bytes(I[:32], "big")
    if k == 0 or k >= N:
        return None
    return XPrv(k, I[32:])


B58 = "123456789ABCDEFGHJKLMNPQRSTUVWXYZabcdefghijkmnopqrstuvwxyz"


def b58encode(b):
    n = int.from_bytes(b, "big")
    s = ""
    while n:
        n, r = divmod(n, 58)
        s = B58[r] + s
    return "1" * (len(b) - len(b.lstrip(b"\x00"))) + s


def b58decode(s):
    """bytes or None (character outside the alphabet)."""
    n = 0
    for ch in s:
        i = B58.find(ch)
        if i < 0:
            return None
        n = n * 58 + i
    body = n.to_bytes((n.bit_length() + 7) // 8, "big")
    return b"\x00" * (len(s) - len(s.lstrip("1"))) + body


def b58check_encode(payload):
    return b58encode(payload + hashlib.sha256(hashlib.sha256(payload).digest()).digest()[:4])


def b58check_decode(s):
    raw = b58decode(s)
    if raw is None or len(raw) < 4:
        return None
    if hashlib.sha256(hashlib.sha256(raw[:-4]).digest()).digest()[:4] != raw[-4:]:
        return None
    return raw[:-4]


def _selftest():
    # BIP32 test vectors (published Base58 strings)
    m = master(bytes.fromhex("000102030405060708090a0b0c0d0e0f"))
    assert b58check_encode(bytes.fromhex("0488ADE4") + m.ser()) == \
        "xprv9s21ZrQH143K3QTDL4LXw2F7HEK3wJUD2nW2nRk4stbPy6cq3jPPqjiChkVvvNKmPGJxWUtg6LnF5kejMRNNU3TGtRBeJgk33yuGBxrMPHi"
    c = m.ckd(0x80000000)
    assert b58check_encode(bytes.fromhex("0488ADE4") + c.ser()) == \
        "xprv9uHRZZhk6KAJC1avXpDAp4MDc3sQKNxDiPvvkX8Br5ngLNv1TxvUxt4cV1rGL5hj6KCesnDYUhd7oWgT11eZG7XnxHrnYeSvkzY7d2bhkJ7"
    c1 = c.ckd(1)
    assert b58check_encode(bytes.fromhex("0488B21E") + c1.pub().ser()) == \
        "xpub6ASuArnXKPbfEwhqN6e3mwBcDTgzisQN1wXN9BJcM47sSikHjJf3UFHKkNAWbWMiGj7Wf5uMash7SyYq527Hqck2AxYysAA7xmALppuCkwQ"
    assert c.pub().ckd(1).ser() == c1.pub().ser()
    # vector 2, m/0 and vector 3 (leading zeros), m
    m2 = master(bytes.fromhex("fffcf9f6f3f0edeae7e4e1dedbd8d5d2cfccc9c6c3c0bdbab7b4b1aeaba8a5a29f9c999693908d8a8784817e7b7875726f6c696663605d5a5754514e4b484542"))
    assert b58check_encode(bytes.fromhex("0488B21E") + m2.ckd(0).pub().ser()) == \
        "xpub69H7F5d8KSRgmmdJg2KhpAK8SR3DjMwAdkxj3ZuxV27CprR9LgpeyGmXUbC6wb7ERfvrnKZjXoUmmDznezpbZb7ap6r1D3tgFxHmwMkQTPH"
    m3 = master(bytes.fromhex("4b381541583be4423346c643850da4b320e46a87ae3d2a4e6da11eba819cd4acba45d239319ac14f863b8d5ab5a0d0c64d2e8a1e7d1457df2e5a3c51c73235be"))
    assert b58check_encode(bytes.fromhex("0488ADE4") + m3.ckd(0x80000000).ser()) == \
        "xprv9uPDJpEQgRQfDcW7BkF7eTya6RPxXeJCqCJGHuCJ4GiRVLzkTXBAJMu2qaMWPrS7AANYqdq6vcBcBUdJCVVFceUvJFjaPdGZ2y9WACViL4L"
    # Base58Check of a P2PKH address (hash160 of the generator point's compressed encoding: well-known address)
    assert b58check_encode(b"\x00" + hash160(ser_p(secp256k1.G))) == "1BgGZ9tcN4rm9KBzDn7KprQz87SZ26SAMH"
    assert b58check_decode("1BgGZ9tcN4rm9KBzDn7KprQz87SZ26SAMH") == b"\x00" + hash160(ser_p(secp256k1.G))


_selftest()

# ----------------------------------------------------------------------------------------------------------------
# documented network formats (developer reference, BIP173, BIP325, BIP94) -- not read from the C++ side

NETS = {
    "main": {"p2pkh": 0, "p2sh": 5, "hrp": "bc"},
    "test": {"p2pkh": 111, "p2sh": 196, "hrp": "tb"},
    "testnet4": {"p2pkh": 111, "p2sh": 196, "hrp": "tb"},
    "signet": {"p2pkh": 111, "p2sh": 196, "hrp": "tb"},
    "regtest": {"p2pkh": 111, "p2sh": 196, "hrp": "bcrt"},
}
NET_NAMES = list(NETS)
CHARSET = segwit_addr.CHARSET
ENC = {"bech32": segwit_addr.Encoding.BECH32, "bech32m": segwit_addr.Encoding.BECH32M}
ENC_NAME = {segwit_addr.Encoding.BECH32: "bech32", segwit_addr.Encoding.BECH32M: "bech32m", None: "invalid"}

# ----------------------------------------------------------------------------------------------------------------
# strategies

idx = st.one_of(st.sampled_from([0, 1, 0x7fffffff, 0x80000000, 0xffffffff, 0x80000001, 2, 0x7ffffffe]), st.integers(0, 0xffffffff))


@st.composite
def k_bip32(draw):
    n = draw(st.sampled_from([16, 32, 64, draw(st.integers(16, 64))]))
    return {"kind": "bip32", "seed": draw(st.binary(min_size=n, max_size=n)), "path": draw(st.lists(idx, min_size=0, max_size=8))}


printable_lower = st.integers(33, 126).map(chr).map(lambda c: c.lower())


@st.composite
def hrps(draw):
    k = draw(st.integers(0, 3))
    if k <= 1:
        return draw(st.sampled_from(["bc", "tb", "bcrt"]))
    return "".join(draw(st.lists(printable_lower, min_size=1, max_size=8 if k == 2 else 83)))


@st.composite
def bech32_parts(draw):
    hrp = draw(hrps())
    maxd = 90 - 7 - len(hrp)
    dl = draw(st.one_of(st.just(maxd), st.integers(0, maxd), st.sampled_from([33, 53, 59]).filter(lambda n: n <= maxd)))
    vals = draw(st.lists(st.integers(0, 31), min_size=dl, max_size=dl))
    return hrp, vals, draw(st.sampled_from(["bech32", "bech32m"]))


# a mutation is [op, position (reduced modulo the current length), character code]
mutation = st.tuples(st.sampled_from(["sub", "subq", "ins", "del", "flip", "upper", "lower"]), st.integers(0, 200), st.integers(33, 126))


@st.composite
def k_bech32dec(draw):
    hrp, vals, enc = draw(bech32_parts())
    mode = draw(st.sampled_from(["bch", "bch", "free", "long"]))
    ex = {"kind": "bech32dec", "hrp": hrp, "values": vals, "enc": enc, "mode": mode}
    if mode == "bch":      # 1..4 substitutions at distinct data-part positions by other charset characters
        total = len(vals) + 6
        k = draw(st.integers(1, 4))
        pos = draw(st.lists(st.integers(0, total - 1), min_size=k, max_size=k, unique=True))
        ex["subs"] = [[p, draw(st.integers(1, 31))] for p in pos]      # character index shifted by 1..31 (never the same character)
    elif mode == "free":
        ex["muts"] = draw(st.lists(mutation, min_size=0, max_size=4))
    else:                   # longer than 90 characters (valid checksum): must be refused
        ex["extra"] = draw(st.integers(1, 30))
    return ex


@st.composite
def k_bech32enc(draw):
    hrp, vals, enc = draw(bech32_parts())
    return {"kind": "bech32enc", "hrp": hrp, "values": vals, "enc": enc}


@st.composite
def k_addr(draw):
    typ = draw(st.sampled_from(["p2pkh", "p2sh", "p2wpkh", "p2wsh", "p2tr", "p2a", "wit"]))
    ex = {"kind": "addr", "type": typ, "net": draw(st.sampled_from(NET_NAMES))}
    if typ in ("p2pkh", "p2sh", "p2wpkh"):
        ex["prog"] = draw(st.binary(min_size=20, max_size=20))
    elif typ in ("p2wsh", "p2tr"):
        ex["prog"] = draw(st.binary(min_size=32, max_size=32))
    elif typ == "p2a":
        ex["prog"] = bytes.fromhex("4e73")
    else:
        ex["ver"] = draw(st.integers(1, 16))
        n = draw(st.integers(2, 40))
        ex["prog"] = draw(st.binary(min_size=n, max_size=n))
    ex["muts"] = draw(st.lists(mutation, min_size=1, max_size=3))
    return ex


def cases():
    return st.one_of(k_bip32(), k_bech32dec(), k_bech32dec(), k_bech32enc(), k_addr(), k_addr())


# ----------------------------------------------------------------------------------------------------------------
# checks


def c_bip32(sut, ex, c):
    path = ex["path"]
    steps = sut.call("bip32", seed=ex["seed"], path=path)["steps"]
    ref = master(ex["seed"])
    if ref is None:       # probability 2^-127
        c.cls("invalid-master")
        return
    c.eq(steps[0]["xprv"], ref.ser().hex(), "c45.e2-bip32-master", "master key")
    c.eq(steps[0]["xpub"], ref.pub().ser().hex(), "c45.e2-bip32-master", "neutered master key")
    nh = nu = 0
    for n, i in enumerate(path):
        stp = steps[n + 1]
        child = ref.ckd(i)
        hard = i >= 0x80000000
        c.mix(hard, i in (0, 1, 0x7fffffff, 0x80000000, 0xffffffff))
        if child is None:
            c.expect(not stp["ok"], "c45.e2-bip32-priv", "child that BIP32 declares invalid was derived", index=i)
            break
        c.expect(stp["ok"], "c45.e2-bip32-priv", "Derive failed", index=i, depth=ref.depth)
        c.eq(stp["xprv"], child.ser().hex(), "c45.e2-bip32-priv", "private child differs from BIP32", index=i, depth=child.depth)
        cpub = child.pub()
        c.eq(stp["xpub"], cpub.ser().hex(), "c45.e2-bip32-pub", "neutered child differs from BIP32", index=i, depth=child.depth)
        if not hard:
            viapub = ref.pub().ckd(i)
            if viapub is not None:
                c.expect(stp["pub_derive_ok"], "c45.e2-bip32-pub", "public derivation failed", index=i)
                c.eq(stp["xpub_from_pub"], viapub.ser().hex(), "c45.e2-bip32-pub", "CKDpub differs from BIP32", index=i)
                c.eq(stp["xpub_from_pub"], stp["xpub"], "c45.e2-bip32-pub", "N(CKDpriv) != CKDpub(N)", index=i)
            nu += 1
        else:
            nh += 1
        ref = child
    c.note("m/" + "/".join(f"{i & 0x7fffffff}{'h' if i >> 31 else ''}" for i in path))
    c.nontrivial(nh >= 1 and nu >= 1)
    if nh:
        c.cls("hardened")
    if nu:
        c.cls("unhardened")


def apply_muts(s, muts):
    kinds = []
    for op, pos, ch in muts:
        if op in ("upper", "lower"):
            s = s.upper() if op == "upper" else s.lower()
            kinds.append(op)
            continue
        if not s:
            continue
        p = pos % len(s)
        if op == "sub":
            s = s[:p] + chr(ch) + s[p + 1:]
        elif op == "subq":          # substitute by a bech32 character (stays well-formed)
            s = s[:p] + CHARSET[ch % 32] + s[p + 1:]
        elif op == "ins":
            s = s[:p] + chr(ch) + s[p:]
        elif op == "del":
            s = s[:p] + s[p + 1:]
        elif op == "flip":
            s = s[:p] + s[p].swapcase() + s[p + 1:]
        kinds.append(op)
    return s, kinds


def cmp_bech32_decode(sut, c, s, oracle):
    got = sut.call("bech32", dir="dec", str_hex=s.encode("latin-1"))
    enc, hrp, data = segwit_addr.bech32_decode(s)
    want = ENC_NAME[enc]
    c.eq(got["enc"], want, oracle, "validity / encoding differs from the BIP173/350 reference decoder", string=s)
    if enc is not None:
        c.eq(got["hrp"], hrp, oracle, "hrp differs", string=s)
        c.eq(got["values"], data, oracle, "values differ", string=s)
    return got


def c_bech32dec(sut, ex, c):
    enc = ENC[ex["enc"]]
    base = segwit_addr.bech32_encode(enc, ex["hrp"], ex["values"])
    mode = ex["mode"]
    c.mix(mode, ex["enc"], len(ex["hrp"]), len(ex["values"]))
    if mode == "bch":
        start = len(ex["hrp"]) + 1
        s = list(base)
        for p, shift in ex["subs"]:
            s[start + p] = CHARSET[(CHARSET.index(s[start + p]) + shift) % 32]
        s = "".join(s)
        got = cmp_bech32_decode(sut, c, s, "c45.e2-bech32-decode")
        c.expect(got["enc"] != ex["enc"], "c45.e2-bech32-bch", f"{len(ex['subs'])} substituted characters pass the original checksum", original=base,
                 corrupted=s)
        c.cls(f"bch:{len(ex['subs'])}")
        c.mix(len(ex["subs"]))
        c.nontrivial()
    elif mode == "free":
        s, kinds = apply_muts(base, ex["muts"])
        got = cmp_bech32_decode(sut, c, s, "c45.e2-bech32-decode")
        c.cls("free:" + ("valid" if got["enc"] != "invalid" else "invalid"))
        c.mix(*kinds)
        c.nontrivial(bool(kinds))
    else:
        hrp = ex["hrp"] + "x" * (91 - len(base) + ex["extra"] - 1)
        s = segwit_addr.bech32_encode(enc, hrp, ex["values"])
        assert len(s) > 90
        got = cmp_bech32_decode(sut, c, s, "c45.e2-bech32-decode")
        c.cls("long")
        c.nontrivial()
    c.note(mode, s)


def c_bech32enc(sut, ex, c):
    got = sut.call("bech32", dir="enc", hrp=ex["hrp"], values=ex["values"], enc=ex["enc"])["str"]
    c.eq(got, segwit_addr.bech32_encode(ENC[ex["enc"]], ex["hrp"], ex["values"]), "c45.e2-bech32-encode", "encoding differs from the reference")
    c.mix(ex["enc"], len(ex["hrp"]), len(ex["values"]))
    c.nontrivial(len(ex["values"]) >= 1)


def spk_of(ex):
    t, prog = ex["type"], ex["prog"]
    if t == "p2pkh":
        return bytes([0x76, 0xa9, 20]) + prog + bytes([0x88, 0xac]), None
    if t == "p2sh":
        return bytes([0xa9, 20]) + prog + bytes([0x87]), None
    ver = {"p2wpkh": 0, "p2wsh": 0, "p2tr": 1, "p2a": 1}.get(t, ex.get("ver"))
    return bytes([0x50 + ver if ver else 0, len(prog)]) + prog, ver


def py_decode_address(net, s):
    """scriptPubKey or None, from the documented formats."""
    f = NETS[net]
    ver, prog = segwit_addr.decode_segwit_address(f["hrp"], s)
    if ver is not None:
        prog = bytes(prog)
        return bytes([0x50 + ver if ver else 0, len(prog)]) + prog
    raw = b58check_decode(s)
    if raw is not None and len(raw) == 21:
        if raw[0] == f["p2pkh"]:
            return bytes([0x76, 0xa9, 20]) + raw[1:] + bytes([0x88, 0xac])
        if raw[0] == f["p2sh"]:
            return bytes([0xa9, 20]) + raw[1:] + bytes([0x87])
    return None


def c_addr(sut, ex, c):
    net, f = ex["net"], NETS[ex["net"]]
    spk, ver = spk_of(ex)
    if ver is None:
        addr = b58check_encode(bytes([f[ex["type"]]]) + ex["prog"])
    else:
        addr = segwit_addr.encode_segwit_address(f["hrp"], ver, ex["prog"])
        assert addr is not None
    got = sut.call("dest", dir="enc", chain=net, spk=spk)
    c.expect(got["ok"], "c45.e2-addr-encode", "ExtractDestination refuses a standard output script", spk=spk)
    c.eq(got["addr"], addr, "c45.e2-addr-encode", "address differs from the reference encoding", net=net, spk=spk)
    c.mix(ex["type"], net, len(ex["prog"]), ver)
    c.cls("type:" + ex["type"])
    # every network decodes (or refuses) it as the documented formats say
    for other in NET_NAMES:
        want = py_decode_address(other, addr)
        rep = sut.call("dest", dir="dec", chain=other, str=addr)
        if want is None:
            c.expect(not rep["valid"], "c45.e2-addr-other-net", "address accepted on a network with a different format", addr=addr, made_for=net,
                     decoded_on=other)
            c.cls("cross:invalid")
        else:
            c.expect(rep["valid"] and rep["spk"] == want.hex(), "c45.e2-addr-decode", "address decodes differently from the reference", addr=addr,
                     decoded_on=other, got=rep["spk"], want=want)
            assert want == spk, "reference decoder disagrees with the reference encoder"
    # corrupted address: same verdict and same script as the Python decoders (no whitespace / control characters: Base58 tolerates
    # surrounding whitespace by design, which the references do not model)
    bad, kinds = apply_muts(addr, ex["muts"])
    on = NET_NAMES[(NET_NAMES.index(net) + len(bad)) % 5] if len(kinds) > 1 else net
    want = py_decode_address(on, bad)
    rep = sut.call("dest", dir="dec", chain=on, str=bad)
    c.expect(rep["valid"] == (want is not None) and (want is None or rep["spk"] == want.hex()), "c45.e2-addr-corrupted",
             "corrupted address judged differently from the reference decoders", corrupted=bad, original=addr, decoded_on=on, got=rep, want=want)
    c.cls("corrupted:" + ("valid" if want is not None else "invalid"))
    c.mix(*kinds)
    c.note(net, ex["type"], addr, "->", on, bad)
    c.nontrivial()


check = e2.dispatch({"bip32": c_bip32, "bech32dec": c_bech32dec, "bech32enc": c_bech32enc, "addr": c_addr})

if __name__ == "__main__":
    e2.main(__file__, strategy=cases(), check=check)
