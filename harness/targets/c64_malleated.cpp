// C64 — A malleated copy of a transaction cannot censor the genuine one.
// Full stack: NetSim node (PeerManager + TxDownloadManager + real mempool/ATMP) with honest and attacking wtxid-relay peers.
// Attackers announce/deliver same-txid variants (stripped / invalid / non-standard witness) of a genuine valid transaction G
// in every order relative to G's announcement; variants may sit in the orphanage (parent unknown); blocks and reorgs reset
// the reject filters; attackers may stall requests. Honest peers are prompt: they answer every getdata for something they
// announced. Attackers never announce G's own wtxid (a stalled request for the genuine wtxid would be stalling, not malleation).
// Oracle (end-to-end, bounded liveness): after an honest peer has announced G by wtxid (mode A) or handed over a child of G so
// that G has to be fetched as a missing parent (mode B), G is in the mempool within the time the request scheduling can take
// (2 s non-preferred + 2 s txid delay + 60 s per attacker that is allowed to stall the same request). The whole case is re-run
// under 3 other salts before a failure counts (rolling bloom filters: reject / confirmed filters).
#include <engine/verif.h>
#include <kits/chainsim.h>
#include <kits/netsim.h>

#include <streams.h>
#include <test/util/script.h>

#include <set>

using namespace verif;

namespace {

enum class VK { STRIPPED, EXTRA_ITEM, WRONG_SCRIPT, BIG_ITEM, BAD_SIG, EMPTY_WITNESS_ITEM };
const char* VKName(VK k)
{
    switch (k) {
    case VK::STRIPPED: return "stripped";
    case VK::EXTRA_ITEM: return "extra-item";
    case VK::WRONG_SCRIPT: return "wrong-script";
    case VK::BIG_ITEM: return "big-item";
    case VK::BAD_SIG: return "bad-sig";
    case VK::EMPTY_WITNESS_ITEM: return "emptied-item";
    }
    return "?";
}

CTransactionRef MakeVariant(const CTransactionRef& g, VK k)
{
    CMutableTransaction m(*g);
    auto& st = m.vin[0].scriptWitness.stack;
    switch (k) {
    case VK::STRIPPED: for (auto& in : m.vin) in.scriptWitness.stack.clear(); break;
    case VK::EXTRA_ITEM: st.insert(st.begin(), std::vector<unsigned char>{0x01}); break;
    case VK::WRONG_SCRIPT: st.back() = std::vector<unsigned char>{OP_TRUE, OP_TRUE}; break;
    case VK::BIG_ITEM: st.insert(st.begin(), std::vector<unsigned char>(200, 0x42)); break;
    case VK::BAD_SIG: if (!st.empty() && st[0].size() > 10) st[0][8] ^= 0x01; else st.insert(st.begin(), std::vector<unsigned char>{0x02}); break;
    case VK::EMPTY_WITNESS_ITEM: st.front().clear(); break;
    }
    return MakeTransactionRef(m);
}

std::vector<uint8_t> SerTx(const CTransaction& tx)
{
    DataStream ds;
    ds << TX_WITH_WITNESS(tx);
    return std::vector<uint8_t>(UCharCast(ds.data()), UCharCast(ds.data()) + ds.size());
}

struct Outcome {
    bool censored{false};       //!< the oracle failed in this run
    std::string what;
};

// One complete run of the scenario encoded by `bytes` under `salt`. Fills `st` only when `primary`.
Outcome RunScenario(const std::vector<uint8_t>& bytes, uint64_t salt, Stats& st_out, bool primary)
{
    Stats scratch;
    Stats& st = primary ? st_out : scratch;
    st.want_sample = primary && st_out.want_sample;
    Src s(bytes.data(), bytes.size());
    Outcome out;

    auto simp = std::make_unique<ChainSim>(ChainSimOpts{});
    ChainSim& sim = *simp;
    sim.LoadBase(112);
    NetSimOpts no;
    no.rng_seed = salt;
    NetSim net(sim, no);

    // ---------------------------------------------------------------- coins
    std::vector<std::pair<COutPoint, RefCoin>> mature;
    {
        RefReplay r = sim.ledger.Replay(sim.TipHash());
        int next_h = sim.TipHeight() + 1;
        for (auto& [op, c] : r.utxo) if (c.coinbase && c.spk == P2WSH_OP_TRUE && next_h - c.height >= 100) mature.emplace_back(op, c);
    }
    size_t next_coin = 0;

    // ---------------------------------------------------------------- peers (all relay by wtxid)
    const unsigned n_honest = 1 + (s.chance(80) ? 1 : 0);
    const unsigned n_attack = 1 + (s.chance(100) ? 1 : 0);
    std::vector<int> honest, attack;
    auto add_peer = [&](bool is_honest) {
        PeerSpec ps;
        ps.conn = s.pick<ConnectionType>({ConnectionType::INBOUND, ConnectionType::OUTBOUND_FULL_RELAY, ConnectionType::INBOUND, ConnectionType::MANUAL});
        ps.perms = s.chance(40) ? NetPermissionFlags::Relay : NetPermissionFlags::None;
        ps.addr = AddrKind::ROUTABLE_V4;
        ps.wtxidrelay = true;
        ps.relay_txs = true;
        int p = net.AddPeer(ps);
        bool ok = net.Handshake(p);
        assert(ok);
        (is_honest ? honest : attack).push_back(p);
        st.note(is_honest ? "honest" : "attacker", " peer", p, " ", ConnTypeName(ps.conn));
        st.mix(uint64_t(ps.conn) * 2 + is_honest);
    };
    for (unsigned i = 0; i < n_honest; ++i) add_peer(true);
    for (unsigned i = 0; i < n_attack; ++i) add_peer(false);
    // optionally one more honest peer that relays by txid (pre-BIP339 software): the reason why txids of failed witness txs are kept out of the reject filter
    int legacy = -1;
    if (s.chance(170)) {
        PeerSpec ps;
        ps.conn = s.boolean() ? ConnectionType::INBOUND : ConnectionType::OUTBOUND_FULL_RELAY;
        ps.wtxidrelay = false;
        ps.version = 70015;
        legacy = net.AddPeer(ps);
        bool ok = net.Handshake(legacy);
        assert(ok);
        st.note("honest txid-relay peer", legacy);
        st.mix(uint64_t(77));
    }
    std::set<int> attackers(attack.begin(), attack.end());

    // ---------------------------------------------------------------- the transaction family
    const bool has_parent = s.chance(110);
    const bool key_spend = has_parent && s.chance(100); // G spends a P2WPKH output of P (real signature)
    CTransactionRef P, G, C;
    {
        auto coin = mature.at(next_coin++);
        if (has_parent) {
            CMutableTransaction mp = sim.MakeTx({coin}, {CTxOut(coin.second.value / 2 - 30000, P2WSH_OP_TRUE), CTxOut(coin.second.value / 2, sim.keys.Script(SpkType::P2WPKH, 1))});
            P = MakeTransactionRef(mp);
            uint32_t idx = key_spend ? 1 : 0;
            RefCoin pc{P->vout[idx].nValue, P->vout[idx].scriptPubKey, 0, false};
            G = MakeTransactionRef(sim.MakeTx({{COutPoint(P->GetHash(), idx), pc}}, {CTxOut(pc.value - 40000, P2WSH_OP_TRUE)}));
        } else {
            G = MakeTransactionRef(sim.MakeTx({coin}, {CTxOut(coin.second.value - 40000, P2WSH_OP_TRUE)}));
        }
        RefCoin gc{G->vout[0].nValue, P2WSH_OP_TRUE, 0, false};
        C = MakeTransactionRef(sim.MakeTx({{COutPoint(G->GetHash(), 0), gc}}, {CTxOut(gc.value - 50000, P2WSH_OP_TRUE)}));
    }
    assert(G->HasWitness());
    std::vector<std::pair<VK, CTransactionRef>> variants;
    for (VK k : {VK::STRIPPED, VK::EXTRA_ITEM, VK::WRONG_SCRIPT, VK::BIG_ITEM, VK::BAD_SIG, VK::EMPTY_WITNESS_ITEM}) {
        CTransactionRef v = MakeVariant(G, k);
        if (v->GetHash() == G->GetHash() && v->GetWitnessHash() != G->GetWitnessHash()) variants.emplace_back(k, v);
    }
    st.note("family: parent=", has_parent, " keyspend=", key_spend, " G=", G->GetWitnessHash().ToString().substr(0, 8));
    st.mix(uint64_t(has_parent * 2 + key_spend));

    // what each honest peer can serve
    std::map<int, std::set<uint256>> knows; // peer -> wtxids it has announced/holds
    auto tx_by_request = [&](const CInv& inv) -> CTransactionRef {
        for (auto& t : {P, G, C}) {
            if (!t) continue;
            if (inv.IsMsgWtx() ? (t->GetWitnessHash().ToUint256() == inv.hash) : (t->GetHash().ToUint256() == inv.hash)) return t;
        }
        return nullptr;
    };

    bool variant_received_before_G = false; // a variant reached the node while G was not yet in the pool
    bool variant_was_orphan = false;
    bool stripped_orphan_delivered = false; // a witness-stripped copy reached the node while G's parent was unknown (it is then stored as an orphan)
    bool p_confirmed = false;
    bool closing_txid_mode = false; // set when the closing phase asserts a txid-keyed mode (A2 / B)
    unsigned stalls = 0;
    size_t cursor = 0; // log position up to which getdata messages have been answered
    int64_t elapsed = 0;

    auto in_pool = [&](const CTransactionRef& t) { return t && sim.mempool().exists(t->GetWitnessHash()); };
    auto parent_known = [&]() { return !has_parent || p_confirmed || in_pool(P); };

    // Answer the node's getdata messages: honest peers promptly with the genuine tx (if they hold it), attackers per their script.
    std::function<void()> answer_requests = [&]() {
        for (int guard = 0; guard < 50; ++guard) {
            if (cursor >= net.Log().size()) break;
            size_t end = net.Log().size();
            std::vector<std::pair<int, CInv>> todo;
            for (size_t i = cursor; i < end; ++i) {
                const SentMsg& m = net.Log()[i];
                if (m.type != NetMsgType::GETDATA || m.peer < 0) continue;
                for (const CInv& inv : NetSim::DecodeInvs(m)) if (inv.IsGenTxMsg()) todo.emplace_back(m.peer, inv);
            }
            cursor = end;
            for (auto& [p, inv] : todo) {
                if (net.Disconnected(p)) continue;
                if (!attackers.count(p)) {
                    CTransactionRef t = tx_by_request(inv);
                    if (t && knows[p].count(t->GetWitnessHash().ToUint256())) {
                        st.note("honest peer", p, " serves ", t == G ? "G" : t == P ? "P" : "C");
                        if (t == G) st.cls("genuine-served-on-request");
                        net.SendRaw(p, NetMsgType::TX, SerTx(*t));
                    } else {
                        net.Send(p, NetMsgType::NOTFOUND, std::vector<CInv>{inv});
                    }
                } else {
                    // attacker: asked for a variant's wtxid or (orphan resolution) for a txid
                    unsigned beh = s.range<unsigned>(0, 3);
                    CTransactionRef v;
                    VK vk = VK::EXTRA_ITEM;
                    for (auto& [k, var] : variants) if (inv.IsMsgWtx() ? var->GetWitnessHash().ToUint256() == inv.hash : var->GetHash().ToUint256() == inv.hash) { v = var; vk = k; if (s.boolean()) break; }
                    // while a txid-keyed closing mode is being asserted, a copy that would be stored as an orphan (parent still unknown) is withheld:
                    // that state belongs to the known findings (probe stage), not to this oracle
                    if (v && beh >= 2 && closing_txid_mode && !parent_known()) { beh = 0; st.cls("closing-orphan-copy-withheld"); }
                    if (beh == 0 || !v) { stalls++; st.cls("attacker-stalls"); st.note("attacker peer", p, " stalls"); }
                    else if (beh == 1) { net.Send(p, NetMsgType::NOTFOUND, std::vector<CInv>{inv}); st.note("attacker peer", p, " notfound"); }
                    else {
                        if (!in_pool(G)) variant_received_before_G = true;
                        if (!parent_known()) { variant_was_orphan = true; if (vk == VK::STRIPPED) stripped_orphan_delivered = true; }
                        st.note("attacker peer", p, " answers with variant ", VKName(vk));
                        net.SendRaw(p, NetMsgType::TX, SerTx(*v));
                    }
                }
            }
        }
    };
    auto tick = [&]() { net.TickAll(); answer_requests(); };

    // ---------------------------------------------------------------- history
    const unsigned nops = s.range<unsigned>(2, 18);
    for (unsigned op = 0; op < nops && !s.exhausted(); ++op) {
        unsigned sel = s.range<unsigned>(0, 99);
        if (sel < 22) { // attacker announces a variant by its wtxid
            int m = attack[s.index(attack.size())];
            if (net.Disconnected(m) || variants.empty()) continue;
            auto& [k, v] = variants[s.index(variants.size())];
            net.Send(m, NetMsgType::INV, std::vector<CInv>{CInv(MSG_WTX, v->GetWitnessHash().ToUint256())});
            st.note("attacker peer", m, " inv variant ", VKName(k)); st.cls("variant-announced"); st.mix(uint64_t(10 + int(k)));
        } else if (sel < 46) { // attacker delivers a variant unsolicited
            int m = attack[s.index(attack.size())];
            if (net.Disconnected(m) || variants.empty()) continue;
            auto& [k, v] = variants[s.index(variants.size())];
            if (!in_pool(G)) variant_received_before_G = true;
            if (!parent_known()) { variant_was_orphan = true; st.cls("variant-while-parent-unknown"); if (k == VK::STRIPPED) stripped_orphan_delivered = true; }
            net.SendRaw(m, NetMsgType::TX, SerTx(*v));
            st.note("attacker peer", m, " sends variant ", VKName(k)); st.cls(std::string("variant-delivered:") + VKName(k)); st.mix(uint64_t(20 + int(k)));
        } else if (sel < 52) { // attacker sends the (valid) child: G becomes a missing parent that is fetched by txid -- from the attacker
            int m = attack[s.index(attack.size())];
            if (net.Disconnected(m)) continue;
            net.SendRaw(m, NetMsgType::TX, SerTx(*C));
            st.note("attacker peer", m, " sends child C"); st.cls("attacker-sends-child"); st.mix(uint64_t(30));
        } else if (sel < 56) { // honest peer announces G
            int h = honest[s.index(honest.size())];
            knows[h].insert(G->GetWitnessHash().ToUint256());
            if (has_parent) knows[h].insert(P->GetWitnessHash().ToUint256());
            net.Send(h, NetMsgType::INV, std::vector<CInv>{CInv(MSG_WTX, G->GetWitnessHash().ToUint256())});
            st.note("honest peer", h, " inv G"); st.cls("honest-announces-early"); st.mix(uint64_t(31));
        } else if (sel < 64 && has_parent) { // honest peer announces the parent
            int h = honest[s.index(honest.size())];
            knows[h].insert(P->GetWitnessHash().ToUint256());
            net.Send(h, NetMsgType::INV, std::vector<CInv>{CInv(MSG_WTX, P->GetWitnessHash().ToUint256())});
            st.note("honest peer", h, " inv P"); st.mix(uint64_t(32));
        } else if (sel < 80) { // time passes
            int64_t d = s.pick<int64_t>({1, 2, 3, 5, 10, 30, 61});
            if (elapsed + d > 280) continue;
            elapsed += d;
            net.Advance(d);
            st.note("advance ", d, "s"); st.mix(uint64_t(40));
        } else if (sel < 88) { // a new block (reject filters are reset on a tip change); may confirm the parent
            BlockSpec spec;
            spec.prev = sim.TipHash();
            spec.extra_nonce = op + 1;
            if (has_parent && in_pool(P) && s.boolean()) {
                spec.txs = {P};
                CAmount outv = 0; for (auto& o : P->vout) outv += o.nValue;
                spec.fees = mature.at(0).second.value - outv;
                st.cls("parent-confirmed");
            }
            auto b = sim.Build(spec);
            auto d = sim.Deliver(b);
            if (!spec.txs.empty() && d.processed) p_confirmed = true;
            st.note("block ", d.processed ? "connected" : "REJECTED"); st.cls("block"); st.mix(uint64_t(41));
        } else if (sel < 92) { // one-block reorg of an empty tip (confirmed-filter reset)
            uint256 tip = sim.TipHash();
            const RefBlock& tb = sim.ledger.At(tip);
            bool tip_empty = tb.vtx.size() == 1 && tb.height > 112;
            if (!tip_empty) continue;
            BlockSpec a; a.prev = tb.prev; a.extra_nonce = 1000 + op;
            auto b1 = sim.Build(a); sim.Deliver(b1);
            BlockSpec b; b.prev = b1->GetHash(); b.extra_nonce = 2000 + op;
            auto b2 = sim.Build(b); sim.Deliver(b2);
            st.note("reorg"); st.cls("reorg"); st.mix(uint64_t(42));
        } else if (sel < 96) { // an attacker goes away
            int m = attack[s.index(attack.size())];
            if (net.Disconnected(m) || net.Reaped(m)) continue;
            net.Reap(m);
            st.note("attacker peer", m, " disconnects"); st.cls("attacker-disconnects"); st.mix(uint64_t(43));
        } else { // attacker announces a variant then immediately the node is ticked (request goes out)
            int m = attack[s.index(attack.size())];
            if (net.Disconnected(m) || variants.empty()) continue;
            auto& [k, v] = variants[s.index(variants.size())];
            net.Send(m, NetMsgType::INV, std::vector<CInv>{CInv(MSG_WTX, v->GetWitnessHash().ToUint256())});
            if (elapsed + 3 <= 280) { elapsed += 3; net.Advance(3); }
            st.note("attacker peer", m, " inv variant ", VKName(k), " +3s"); st.mix(uint64_t(44));
        }
        tick();
    }

    // ---------------------------------------------------------------- closing phase
    const bool g_in_pool_before_closing = in_pool(G);
    // Closing modes: A  = an honest wtxid-relay peer announces G by wtxid (always allowed);
    //                A2 = an honest txid-relay peer announces G by txid;   B = an honest peer announces G's child, G is fetched as missing parent (by txid).
    // The two txid-keyed modes are used only if no same-txid copy was ever delivered while G's parent was unknown: such a copy is stored as an orphan, and
    // the unchanged code then (i) treats txid(G) as already known if the copy is witness-stripped (its wtxid equals the txid) and (ii) forgets every pending
    // txid-keyed request for G when the copy enters the orphanage (ForgetTxHash(txid)). Both are asserted by the probe target c64_stripped_orphan
    // (suspected genuine defect, reported to the coordinator) and excluded here by construction.
    const unsigned want = s.pick<unsigned>({2, 0, 1, 2, 1});
    const bool txid_modes_ok = !variant_was_orphan && !g_in_pool_before_closing;
    const bool mode_b = want == 2 && txid_modes_ok && !in_pool(C);
    const bool mode_a2 = want == 1 && txid_modes_ok && legacy >= 0;
    if (want != 0 && !txid_modes_ok && primary) st.cls("txid-mode-skipped");
    closing_txid_mode = mode_b || mode_a2;
    int h = honest[s.index(honest.size())];
    if (mode_a2) h = legacy;
    knows[h].insert(G->GetWitnessHash().ToUint256());
    if (has_parent) knows[h].insert(P->GetWitnessHash().ToUint256());
    if (mode_b) {
        knows[h].insert(C->GetWitnessHash().ToUint256());
        // announced by wtxid (if an attacker already put C into the orphanage, an unsolicited copy would be dropped as already known and the
        // honest peer would never become a candidate for the parent fetch -- that would be front-running of C, not malleation of G)
        net.Send(h, NetMsgType::INV, std::vector<CInv>{CInv(MSG_WTX, C->GetWitnessHash().ToUint256())});
        st.note("closing B: honest peer", h, " announces child C (G must be fetched as its missing parent)");
        st.cls("closing-mode-B");
    } else if (mode_a2) {
        net.Send(h, NetMsgType::INV, std::vector<CInv>{CInv(MSG_TX, G->GetHash().ToUint256())});
        st.note("closing A2: honest txid-relay peer", h, " announces G by txid");
        st.cls("closing-mode-A2");
    } else {
        net.Send(h, NetMsgType::INV, std::vector<CInv>{CInv(MSG_WTX, G->GetWitnessHash().ToUint256())});
        st.note("closing A: honest peer", h, " announces G");
        st.cls("closing-mode-A");
    }
    st.mix(uint64_t(50 + mode_b + 2 * mode_a2));
    answer_requests();
    // request scheduling: 2 s (non-preferred) + 2 s (txid request while wtxid peers exist); an attacker that became a candidate for the
    // same txid (by sending the child) may hold the request for 60 s each before the honest peer is asked.
    const int64_t budget = 12 + 64 * int64_t(attack.size());
    int64_t waited = 0;
    while (!in_pool(G) && waited < budget) {
        net.Advance(2);
        waited += 2;
        tick();
    }
    st.steps++;
    st.note("closing waited ", waited, "s -> G ", in_pool(G) ? "in pool" : "NOT in pool");
    if (!in_pool(G) && closing_txid_mode && variant_was_orphan) {
        // belt and braces: a same-txid copy was in the orphanage at some time although a txid-keyed mode was chosen -> known findings, not asserted here
        if (primary) st.cls("txid-mode-skipped");
    } else if (!in_pool(G)) {
        out.censored = true;
        out.what = std::string("genuine tx not in the mempool ") + (mode_b ? "(mode B: parent fetch by txid)" : mode_a2 ? "(mode A2: txid announcement by a txid-relay peer)" : "(mode A: wtxid announcement)") +
                   " after " + std::to_string(waited) + "s; variant_before=" + std::to_string(variant_received_before_G) + " orphan_variant=" + std::to_string(variant_was_orphan);
    }
    if (primary) {
        if (variant_received_before_G) st.cls("variant-before-genuine");
        if (variant_was_orphan) st.cls("variant-as-orphan");
        if (g_in_pool_before_closing) st.cls("genuine-already-in-pool");
        if (has_parent) st.cls("has-parent");
        if (key_spend) st.cls("key-spend");
        if (waited > 12) st.cls("closing-waited-for-stall");
        st.nontrivial = variant_received_before_G && !g_in_pool_before_closing && in_pool(G);
        st.mix(uint64_t(variant_received_before_G * 4 + variant_was_orphan * 2 + g_in_pool_before_closing));
    }
    return out;
}

} // namespace

VERIF_TARGET(c64_malleated, nullptr, 40, 400,
             "regtest node with 1-2 honest and 1-2 attacking wtxid-relay peers (inbound/outbound/manual); a genuine segwit tx G (script- or key-spend; optionally with "
             "an unconfirmed parent so that copies can be orphans) and its child; <=18 ops: attacker announces / delivers / answers with same-txid variants (stripped, "
             "extra item, wrong witness script, oversized item, bad signature, emptied item), sends the child (parent fetch by txid goes to the attacker), stalls, "
             "disconnects; honest early announcements; time steps up to 61 s; blocks (optionally confirming the parent), one-block reorgs; then an honest peer "
             "announces G (mode A) or hands over G's child (mode B) and G must reach the mempool within the scheduling bound. non-trivial = a variant reached the "
             "node before G, G was not in the pool when the closing phase began, and G was accepted; distinct = peers + op kinds + family shape")
{
    std::vector<uint8_t> bytes = s.ConsumeRemainingBytes<uint8_t>();
    const uint64_t salt0 = bytes.empty() ? 0 : bytes[0];
    Outcome o = RunScenario(bytes, salt0, st, /*primary=*/true);
    if (o.censored) {
        // DESIGN §4: bloom-filter based structures -- a suspected violation only counts if it reproduces under 3 independent re-saltings
        int again = 0;
        for (uint64_t k = 1; k <= 3; ++k) {
            Outcome r = RunScenario(bytes, salt0 + 1000 * k + 7, st, /*primary=*/false);
            again += r.censored;
        }
        st.cls("suspect-rerun");
        if (again >= 3 && st.want_sample) fprintf(stderr, "DECODED-FAILING-CASE %s\n", st.sample.c_str());
        VCHECK(again < 3, "c64.genuine-censored", o.what, "(reproduced under 3 re-saltings)");
        st.cls("suspect-not-reproduced");
    }
}


// ---------------------------------------------------------------------------------------------------------------------
// Deterministic three-way probe of one mechanism (not part of the registered tiers; see corpus/C64/SENSITIVITY.md):
//   index 0: control -- an honest peer announces the child C of G; G and its parent P are fetched as missing parents and all enter the pool
//   index 1: before that, an attacker sends an invalid-witness copy of G (extra stack item) while P is unknown (the copy becomes an orphan)
//   index 2: the same with a witness-STRIPPED copy, whose wtxid equals G's txid
//   index 3: the invalid-witness copy arrives (as orphan) after the child was fetched, while the by-txid request for G is pending
VERIF_TARGET(c64_stripped_orphan, nullptr, 0, 8,
             "three fixed scenarios (control / invalid-witness orphan copy / witness-stripped orphan copy) followed by an honest announcement of G's child; G must be "
             "fetched as missing parent and accepted")
{
    verif::set_enum_total(4);
    int64_t idx = verif::enum_index();
    if (idx < 0) idx = s.range<int>(0, 3);
    if (idx > 3) return;
    auto simp = std::make_unique<ChainSim>(ChainSimOpts{});
    ChainSim& sim = *simp;
    sim.LoadBase(112);
    NetSim net(sim, NetSimOpts{});
    PeerSpec ps;
    ps.conn = ConnectionType::INBOUND;
    int h = net.AddPeer(ps), m = net.AddPeer(ps);
    bool ok = net.Handshake(h) && net.Handshake(m);
    assert(ok);
    std::pair<COutPoint, RefCoin> coin;
    {
        RefReplay r = sim.ledger.Replay(sim.TipHash());
        int next_h = sim.TipHeight() + 1;
        for (auto& [op, c] : r.utxo) if (c.coinbase && c.spk == P2WSH_OP_TRUE && next_h - c.height >= 100) { coin = {op, c}; break; }
    }
    CTransactionRef P = MakeTransactionRef(sim.MakeTx({coin}, {CTxOut(coin.second.value - 30000, P2WSH_OP_TRUE)}));
    RefCoin pc{P->vout[0].nValue, P2WSH_OP_TRUE, 0, false};
    CTransactionRef G = MakeTransactionRef(sim.MakeTx({{COutPoint(P->GetHash(), 0), pc}}, {CTxOut(pc.value - 40000, P2WSH_OP_TRUE)}));
    RefCoin gc{G->vout[0].nValue, P2WSH_OP_TRUE, 0, false};
    CTransactionRef C = MakeTransactionRef(sim.MakeTx({{COutPoint(G->GetHash(), 0), gc}}, {CTxOut(gc.value - 50000, P2WSH_OP_TRUE)}));
    auto in_pool = [&](const CTransactionRef& t) { return sim.mempool().exists(t->GetWitnessHash()); };
    if (idx == 1 || idx == 2) {
        CTransactionRef v = MakeVariant(G, idx == 1 ? VK::EXTRA_ITEM : VK::STRIPPED);
        assert(v->GetHash() == G->GetHash() && v->GetWitnessHash() != G->GetWitnessHash());
        net.SendRaw(m, NetMsgType::TX, SerTx(*v));
        st.note("attacker sends ", idx == 1 ? "extra-item" : "stripped", " copy of G while its parent is unknown");
    }
    net.TickAll();
    size_t cursor = net.Mark();
    net.Send(h, NetMsgType::INV, std::vector<CInv>{CInv(MSG_WTX, C->GetWitnessHash().ToUint256())});
    st.note("honest peer announces child C");
    bool g_requested = false;
    int64_t waited = 0;
    auto serve = [&]() {
        for (int guard = 0; guard < 20 && cursor < net.Log().size(); ++guard) {
            size_t end = net.Log().size();
            std::vector<CInv> todo;
            for (size_t i = cursor; i < end; ++i) {
                const SentMsg& sm = net.Log()[i];
                if (sm.type == NetMsgType::GETDATA && sm.peer == h) for (const CInv& inv : NetSim::DecodeInvs(sm)) if (inv.IsGenTxMsg()) todo.push_back(inv);
            }
            cursor = end;
            for (auto& inv : todo) {
                for (auto& t : {P, G, C}) {
                    if (inv.IsMsgWtx() ? t->GetWitnessHash().ToUint256() == inv.hash : t->GetHash().ToUint256() == inv.hash) {
                        if (t == G) g_requested = true;
                        st.note("honest serves ", t == G ? "G" : t == P ? "P" : "C");
                        net.SendRaw(h, NetMsgType::TX, SerTx(*t));
                    }
                }
            }
        }
    };
    serve();
    if (idx == 3) {
        // let the node fetch C first (it becomes an orphan and the by-txid request for G is scheduled), then the attacker's copy arrives
        net.Advance(2); waited += 2; net.TickAll(); serve();
        CTransactionRef v = MakeVariant(G, VK::EXTRA_ITEM);
        net.SendRaw(m, NetMsgType::TX, SerTx(*v));
        st.note("attacker sends extra-item copy of G (stored as orphan) while the by-txid request for G is pending; C in orphanage=", !in_pool(C));
    }
    while (!in_pool(G) && waited < 12 + 64) { net.Advance(2); waited += 2; net.TickAll(); serve(); }
    st.steps++;
    st.note("waited ", waited, "s: G requested=", g_requested, " G in pool=", in_pool(G), " C in pool=", in_pool(C));
    st.cls(idx == 0 ? "probe-control" : idx == 1 ? "probe-invalid-witness-orphan" : idx == 2 ? "probe-stripped-orphan" : "probe-orphan-copy-during-request");
    st.mix(uint64_t(idx));
    st.nontrivial = idx > 0;
    if (idx < 2) {
        VCHECK(in_pool(G) && in_pool(C), "c64.probe-control", "control scenario failed: G/C not accepted", "idx", idx, "requested", g_requested);
    } else if (idx == 3) {
        VCHECK(in_pool(G), "c64.orphan-copy-cancels-parent-request",
               "a same-txid invalid-witness copy stored as an orphan made the node forget its pending by-txid request for G (ForgetTxHash(txid)); G never fetched;",
               "G requested from the honest peer:", g_requested, "waited", waited, "s");
    } else {
        VCHECK(in_pool(G), "c64.stripped-orphan-masks-parent",
               "after a witness-stripped copy of G was stored as an orphan, G is treated as already known and never fetched as the missing parent of its child;",
               "G requested from the honest peer:", g_requested, "waited", waited, "s");
    }
}
