// C09 — The UTXO set depends only on the active chain, not on the reorg history.
// Oracle: node coins DB (after flush) == RefLedger's from-scratch replay of the active chain; hash_serialized reproduced
// whenever a tip is active again; twin fresh node fed only the active chain gives the same hash.
#include <engine/verif.h>
#include <kits/chainsim.h>

#include <test/util/script.h>

#include <map>
#include <set>

using namespace verif;

namespace {
void init() {}

struct TxRec { CTransactionRef tx; };

} // namespace

VERIF_TARGET(c09_utxo_history, init, 64, 1400,
             "histories (<=45 ops) on a regtest node over a 104-block base: build a block with 0-5 generated transactions on ANY recent block of up to 4 "
             "branches (spends across the fork point, coinbase spends, create-and-spend in one block, the same tx re-mined on a competing branch), deliver, "
             "flush (wipe or keep cache), InvalidateBlock/ReconsiderBlock of the tip; at check points the node's coins DB is dumped and must equal the "
             "model replay from genesis, and hash_serialized must repeat for a tip seen before; at the end a fresh twin node fed only the active chain must "
             "agree. non-trivial = some reorg of depth>=2 disconnected a block that spent a coin created before the fork point, and a coinbase was spent; "
             "distinct = by op-kind sequence + reorg depths")
{
    ChainSimOpts o;
    if (s.chance(96)) o.coins_cache_bytes = size_t(s.pick<size_t>({4096, 65536})); // tiny coins cache: coins move between layers at odd moments
    auto simp = std::make_unique<ChainSim>(o);
    ChainSim& sim = *simp;
    auto base = sim.LoadBase(104);
    std::vector<uint256> heads{base.back()};
    std::map<uint256, uint256> hash_at_tip; // tip -> hash_serialized when first observed
    std::vector<CTransactionRef> built_txs;
    std::set<uint256> spenders_of_old; // blocks that contain a spend (for the non-triviality rule)
    bool cb_spent = false, deep_undo = false;
    int reorgs = 0, maxdepth = 0, checks = 0;
    unsigned nops = s.range<unsigned>(4, 45);
    auto check_point = [&](const char* where) {
        std::string diff = sim.CompareUtxoWithModel();
        st.steps++;
        checks++;
        VCHECK(diff.empty(), "c09.utxo-vs-replay", where, diff, "tip", sim.TipHash().ToString());
        uint256 tip = sim.TipHash();
        uint256 h = sim.UtxoHash();
        auto [it, ins] = hash_at_tip.emplace(tip, h);
        VCHECK(it->second == h, "c09.hash-repeat", where, "hash_serialized differs for the same tip", tip.ToString());
        // supply sanity from the model
        RefReplay r = sim.ledger.Replay(tip);
        VCHECK(r.total <= r.subsidy_sum, "c09.supply", "model total exceeds subsidies");
    };
    for (unsigned op = 0; op < nops && !s.exhausted(); ++op) {
        unsigned kind = s.range<unsigned>(0, 9);
        if (kind <= 5) {
            // build block(s) on a chosen parent
            uint256 parent = s.chance(170) ? sim.TipHash() : heads[s.index(heads.size())];
            int burst = 1;
            if (kind == 5) {
                // overtake: extend a side branch (or a fresh fork 1-4 blocks back) until it has more work than the tip => reorg of known depth
                parent = heads[s.index(heads.size())];
                uint256 tip = sim.TipHash();
                if (sim.ledger.IsAncestor(parent, tip)) {
                    int back = s.range<int>(1, 4), th = sim.ledger.At(tip).height;
                    parent = sim.ledger.AncestorAt(tip, std::max(100, th - back));
                }
                burst = std::clamp(sim.ledger.At(tip).height - sim.ledger.At(parent).height + 1, 1, 6);
                st.cls("overtake");
            } else if (s.chance(40)) { // walk back up to 3 blocks to start a new fork
                int back = s.range<int>(1, 3);
                int ph = sim.ledger.At(parent).height;
                if (ph - back >= 100) parent = sim.ledger.AncestorAt(parent, ph - back);
            }
            for (int bi = 0; bi < burst; ++bi) {
            RefReplay pr = sim.ledger.Replay(parent);
            assert(pr.ok);
            int height = sim.ledger.At(parent).height + 1;
            RefUtxo u = pr.utxo;
            std::vector<CTransactionRef> txs;
            CAmount fees = 0;
            unsigned ntx = s.range<unsigned>(0, 5);
            bool this_block_spends_old = false;
            for (unsigned t = 0; t < ntx; ++t) {
                // optionally re-mine a previously built tx if all its inputs exist here
                if (!built_txs.empty() && s.chance(60)) {
                    CTransactionRef cand = built_txs[s.index(built_txs.size())];
                    bool ok = true; CAmount in = 0, out = 0;
                    for (auto& i : cand->vin) { auto it = u.find(i.prevout); if (it == u.end() || (it->second.coinbase && height - it->second.height < 100)) { ok = false; break; } in += it->second.value; }
                    for (uint32_t k = 0; ok && k < cand->vout.size(); ++k) if (u.count(COutPoint(cand->GetHash(), k))) ok = false;
                    for (auto& x : txs) if (x->GetHash() == cand->GetHash()) ok = false;
                    if (ok) {
                        for (auto& i : cand->vin) { if (u[i.prevout].coinbase) cb_spent = true; u.erase(i.prevout); }
                        for (uint32_t k = 0; k < cand->vout.size(); ++k) { out += cand->vout[k].nValue; if (!(cand->vout[k].scriptPubKey.size() && cand->vout[k].scriptPubKey[0] == OP_RETURN)) u[COutPoint(cand->GetHash(), k)] = RefCoin{cand->vout[k].nValue, cand->vout[k].scriptPubKey, height, false}; }
                        fees += in - out;
                        txs.push_back(cand);
                        this_block_spends_old = true;
                        st.cls("remined-tx");
                        continue;
                    }
                }
                // pick 1-3 spendable coins from the model view at this point of the block (includes outputs created earlier in this block)
                std::vector<std::pair<COutPoint, RefCoin>> spendable;
                for (auto& [op2, c] : u) {
                    if (c.coinbase && height - c.height < 100) continue;
                    if (c.spk == P2WSH_OP_TRUE || c.spk == sim.keys.Script(SpkType::P2WPKH, 1) || c.spk == sim.keys.Script(SpkType::P2PKH, 2)) spendable.emplace_back(op2, c);
                }
                if (spendable.empty()) break;
                unsigned nin = s.range<unsigned>(1, 3);
                std::vector<std::pair<COutPoint, RefCoin>> ins;
                CAmount in = 0;
                for (unsigned k = 0; k < nin && !spendable.empty(); ++k) {
                    size_t j = s.chance(128) ? spendable.size() - 1 - s.index(std::min<size_t>(spendable.size(), 4)) : s.index(spendable.size());
                    ins.push_back(spendable[j]);
                    in += spendable[j].second.value;
                    if (spendable[j].second.coinbase) cb_spent = true;
                    if (spendable[j].second.height == height) st.cls("create-and-spend-in-block");
                    if (spendable[j].second.height < height) this_block_spends_old = true;
                    spendable.erase(spendable.begin() + j);
                }
                unsigned nout = s.range<unsigned>(1, 3);
                CAmount fee = s.chance(128) ? 0 : s.range<CAmount>(0, in / 10);
                CAmount rest = in - fee;
                std::vector<CTxOut> outs;
                for (unsigned k = 0; k < nout; ++k) {
                    CAmount v = (k + 1 == nout) ? rest : s.range<CAmount>(0, rest);
                    rest -= v;
                    SpkType ty = s.pick<SpkType>({SpkType::ANYONE_P2WSH, SpkType::ANYONE_P2WSH, SpkType::P2WPKH, SpkType::P2PKH, SpkType::OP_RETURN});
                    outs.emplace_back(v, sim.keys.Script(ty, ty == SpkType::P2WPKH ? 1 : 2));
                }
                CMutableTransaction mtx = sim.MakeTx(ins, outs);
                CTransactionRef tx = MakeTransactionRef(mtx);
                for (auto& [op2, c] : ins) u.erase(op2);
                CAmount out = 0;
                for (uint32_t k = 0; k < tx->vout.size(); ++k) {
                    out += tx->vout[k].nValue;
                    if (!(tx->vout[k].scriptPubKey.size() && tx->vout[k].scriptPubKey[0] == OP_RETURN)) u[COutPoint(tx->GetHash(), k)] = RefCoin{tx->vout[k].nValue, tx->vout[k].scriptPubKey, height, false};
                }
                fees += in - out;
                txs.push_back(tx);
                built_txs.push_back(tx);
            }
            BlockSpec spec;
            spec.prev = parent;
            spec.txs = txs;
            spec.fees = s.chance(200) ? fees : s.range<CAmount>(0, fees); // may under-claim
            spec.extra_nonce = op;
            auto blk = sim.Build(spec);
            if (this_block_spends_old) spenders_of_old.insert(blk->GetHash());
            uint256 old_tip = sim.TipHash();
            auto d = sim.Deliver(blk);
            VCHECK(d.processed, "c09.valid-block-rejected", "model-valid block not processed", d.verdict ? StateStr(*d.verdict) : "no verdict");
            if (d.verdict) VCHECK(d.verdict->IsValid(), "c09.valid-block-rejected", "model-valid block judged invalid:", StateStr(*d.verdict));
            uint256 new_tip = sim.TipHash();
            st.mix(uint64_t(1)); st.mix(uint64_t(ntx));
            st.note("build h=", height, " ntx=", txs.size(), " on ", parent.ToString().substr(0, 8), (new_tip == blk->GetHash() ? " ->tip" : " (side)"));
            if (new_tip != old_tip && !sim.ledger.IsAncestor(old_tip, new_tip)) {
                // reorg: depth = old height - fork height
                uint256 a = old_tip;
                int depth = 0;
                bool undo_old_spend = false;
                while (!sim.ledger.IsAncestor(a, new_tip)) { if (spenders_of_old.count(a)) undo_old_spend = true; a = sim.ledger.At(a).prev; depth++; }
                reorgs++;
                maxdepth = std::max(maxdepth, depth);
                if (depth >= 2 && undo_old_spend) deep_undo = true;
                st.mix(uint64_t(100 + depth));
                st.note("reorg depth=", depth);
                st.cls("reorg");
                if (depth >= 2) st.cls("reorg-depth>=2");
            }
            // maintain heads
            bool replaced = false;
            for (auto& h : heads) if (h == parent) { h = blk->GetHash(); replaced = true; break; }
            if (!replaced) { if (heads.size() < 4) heads.push_back(blk->GetHash()); else heads[s.index(heads.size())] = blk->GetHash(); }
            parent = blk->GetHash();
            } // burst
        } else if (kind == 6) {
            LOCK(cs_main);
            bool wipe = s.boolean();
            sim.chainstate().ForceFlushStateToDisk(wipe);
            st.mix(uint64_t(2)); st.note("flush wipe=", wipe); st.cls("flush");
        } else if (kind == 7) {
            check_point("mid");
            st.mix(uint64_t(3)); st.note("check");
        } else if (kind == 8) {
            // invalidate the tip (disconnect), check exact restoration, then reconsider
            uint256 tip = sim.TipHash();
            if (sim.ledger.At(tip).height <= 101) continue;
            CBlockIndex* pi;
            { LOCK(cs_main); pi = sim.chainman().m_blockman.LookupBlockIndex(tip); }
            BlockValidationState state;
            sim.chainstate().InvalidateBlock(state, pi);
            sim.SyncSignals();
            st.mix(uint64_t(4)); st.note("invalidate tip h=", sim.ledger.At(tip).height); st.cls("invalidate");
            // the node may have moved to another branch; whatever the tip is, the UTXO must match its replay
            check_point("after-invalidate");
            {
                LOCK(cs_main);
                sim.chainstate().ResetBlockFailureFlags(pi);
                sim.chainman().RecalculateBestHeader();
            }
            sim.chainstate().ActivateBestChain(state);
            sim.SyncSignals();
            check_point("after-reconsider");
        } else {
            // precious: switch between equal-work branches
            uint256 h = heads[s.index(heads.size())];
            CBlockIndex* pi;
            { LOCK(cs_main); pi = sim.chainman().m_blockman.LookupBlockIndex(h); }
            if (!pi) continue;
            BlockValidationState state;
            uint256 old_tip = sim.TipHash();
            sim.chainstate().PreciousBlock(state, pi);
            sim.SyncSignals();
            uint256 new_tip = sim.TipHash();
            st.mix(uint64_t(5)); st.note("precious ", h.ToString().substr(0, 8), new_tip != old_tip ? " switched" : "");
            if (new_tip != old_tip && !sim.ledger.IsAncestor(old_tip, new_tip)) {
                uint256 a = old_tip; int depth = 0; bool undo_old_spend = false;
                while (!sim.ledger.IsAncestor(a, new_tip)) { if (spenders_of_old.count(a)) undo_old_spend = true; a = sim.ledger.At(a).prev; depth++; }
                reorgs++; maxdepth = std::max(maxdepth, depth);
                if (depth >= 2 && undo_old_spend) deep_undo = true;
                st.mix(uint64_t(100 + depth)); st.cls("reorg"); if (depth >= 2) st.cls("reorg-depth>=2");
            }
        }
    }
    check_point("end");
    // twin run: a fresh node fed only the active chain, in order (nodes cannot coexist in one process: destroy the first)
    {
        uint256 tip = sim.TipHash();
        uint256 want = sim.UtxoHash();
        std::vector<std::shared_ptr<const CBlock>> chain;
        for (auto& h : sim.ledger.Path(tip)) if (sim.ledger.At(h).height > 0) chain.push_back(sim.block_store.at(h));
        simp.reset();
        ChainSim twin{ChainSimOpts{}};
        for (auto& b : chain) { twin.Register(b); auto d = twin.Deliver(b); VCHECK(d.processed && twin.TipHash() == b->GetHash(), "c09.twin-rejects", "fresh node does not accept the active chain at", b->GetHash().ToString()); }
        uint256 got = twin.UtxoHash();
        st.steps++;
        VCHECK(got == want, "c09.twin-hash", "hash_serialized after reorg history", want.ToString(), "!= fresh node", got.ToString(), "tip", tip.ToString());
        st.note("twin ok blocks=", chain.size());
    }
    st.nontrivial = deep_undo && cb_spent;
    if (cb_spent) st.cls("coinbase-spent");
    if (deep_undo) st.cls("deep-undo-of-old-spend");
    st.mix(uint64_t(reorgs)); st.mix(uint64_t(maxdepth));
    st.note("reorgs=", reorgs, " maxdepth=", maxdepth, " checks=", checks);
}
