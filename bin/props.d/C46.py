# C46: stage list (what ./check C46 quick|thorough runs) and manifest text. Helpers gen()/enum()/hyp()/custom() come from props.py.
SPEC = {
    "level": "exploration",
    "assumptions": [
        "the satisfiability evaluator over-approximates (boolean semantics of the fragments over key/preimage availability and BIP65/BIP112 predicates on the "
        "concrete transaction; ignores malleability, resource limits, and how a pkh public key is learnt), so only 'unsatisfiable => never complete' is asserted",
        "'complete' = SignatureData.complete / ProduceSignature's return value (c46_miniscript) and 'input has no entry in input_errors' (SignTransaction, "
        "c46_descriptor_sign); verification is repeated with a fresh checker over the final transaction under STANDARD_SCRIPT_VERIFY_FLAGS",
        "satisfiable-by-model but not complete is counted, not asserted (the statement does not promise completeness)",
    ],
    "stages": [
        gen("vh_c46", "c46_miniscript", 120000, 2000000, min_cases_quick=30000,
            floors={"complete": 0.08, "model:unsatisfiable": 0.15, "complete:p2wsh": 0.03, "complete:tapscript": 0.015, "complete:taproot-keypath": 0.01,
                    "ops-limit-trap": 0.005, "has-timelock": 0.2, "complete-with-timelock-in-expr": 0.02, "nodes>=8": 0.15,
                    "frag:and_v": 0.1, "frag:and_b": 0.03, "frag:or_b": 0.03, "frag:or_d": 0.03, "frag:or_i": 0.05, "frag:andor": 0.03, "frag:thresh": 0.05,
                    "frag:older": 0.08, "frag:after": 0.08, "frag:sha256": 0.03, "frag:hash160": 0.03, "frag:pkh": 0.08, "frag:multi": 0.03, "frag:multi_a": 0.03},
            rule="type-directed miniscript expressions in P2WSH / P2SH-P2WSH / tapscript with random key, preimage and timelock availability; "
                 "non-trivial = >= 1 combinator and verdict decided (complete or model-unsatisfiable)"),
        gen("vh_c46", "c46_descriptor_sign", 50000, 800000, min_cases_quick=12000,
            floors={"some-input-complete": 0.3, "some-input-unsatisfiable": 0.2, "complete:wsh(multi)": 0.01, "complete:sh(multi)": 0.01, "complete:tr(key,multi_a)": 0.01,
                    "complete:tr(key,{pk,pk})": 0.01, "complete:wsh(miniscript)": 0.01, "unsat:wsh(multi)": 0.005, "unsat:raw-sh-oversize-multisig": 0.03,
                    "complete:pkh": 0.01, "complete:tr(key)": 0.01},
            rule="descriptor outputs signed with SignTransaction under key subsets; non-trivial = complete and unsatisfiable inputs in one case, or a "
                 "multi-key/script-path input complete"),
        gen("vh_c46", "up_script_sign", 8000, 200000, rule="upstream fuzz target script_sign (supplementary)"),
        gen("vh_c46", "up_miniscript_smart", 6000, 200000, workers_quick=4, rule="upstream fuzz target miniscript_smart: satisfactions vs its own model (supplementary)"),
    ],
}

META = {
    "level_text": "Generated search: ~120k (quick) / 2M (thorough) miniscript expressions (own AST, all fragments and wrappers, P2WSH / P2SH-P2WSH / tapscript leaf "
                  "with optional key path and sibling leaf) signed once by ProduceSignature with random subsets of keys, preimages and satisfied timelocks, plus "
                  "~50k / 800k descriptor-produced outputs (15 kinds incl. a signable-but-unverifiable oversize P2SH) signed by SignTransaction. Asserted: complete "
                  "=> the final transaction's input verifies under the standard flags with a fresh checker; unsatisfiable according to an independent boolean "
                  "evaluator (own BIP65/BIP112 predicates) => never complete. Exploration only.",
    "technique": "property-based testing: implication between the signer's verdict and an independent verification; independent reference evaluator "
                 "(boolean semantics of miniscript over availability sets) used one-directionally",
    "level_note": "ProduceSignature verifies its own result before reporting complete, so most satisfier bugs surface as lost completeness (counted, not asserted); "
                  "the oracle bites when that self-check or the shared timelock/hash predicates are wrong.",
}
