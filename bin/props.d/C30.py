# C30: stage list (what ./check C30 quick|thorough runs) and manifest text. Helpers gen()/enum()/hyp()/custom() come from props.py.
SPEC = {'level': 'exploration',
 'assumptions': ['reference = exact integer/rational arithmetic in boost::multiprecision::int256_t (all intermediate values < 2^135)',
                 'rational order is asserted only for sizes > 0 (FeeFrac invariant; callers never build negative sizes); for zero/negative sizes only '
                 'the 64x32-bit products (native and fallback) are compared with the exact product',
                 'results of Div/EvaluateFee/GetFee are checked only when the exact result fits int64 (documented precondition)',
                 'CompareChunks inputs: chunk sizes > 0, sum of sizes < 2^31, sum of |fee| per diagram <= 2^62 (so that differences between points '
                 'of the two diagrams stay in int64; the header only promises sums < 2^63)',
                 'MulFallback pair (hi, lo) is interpreted as hi*2^32+lo, as DivFallback documents'],
 'stages': [gen('vh_c30', 'c30_feefrac', 1000000, 16000000, min_cases_quick=300000,
                floors={'product>64bit': 0.30, 'equal-ratio-different-size': 0.05, 'negative-fee': 0.20, 'big-and-close': 0.01, 'one-empty': 0.005},
                rule='pairs of fee/size; non-trivial = a cross product needs > 64 bits'),
            gen('vh_c30', 'c30_muldiv', 1200000, 20000000, min_cases_quick=300000,
                floors={'numerator>64bit': 0.12, 'evaluate:mul-div-path': 0.20, 'evaluate:fast-path': 0.05, 'remainder:negative-numerator': 0.10,
                        'raw96': 0.10},
                rule='fee*at/size with rounding mode, raw 96-bit numerators; non-trivial = numerator needs > 64 bits'),
            gen('vh_c30', 'c30_feerate', 600000, 12000000, min_cases_quick=200000,
                floors={'product>64bit': 0.05, 'remainder:nonzero(rounds-up)': 0.30, 'form:per-kvB': 0.2},
                rule='CFeeRate::GetFee for non-negative rates; non-trivial = rate*vsize needs > 64 bits'),
            gen('vh_c30', 'c30_diagram', 200000, 4000000, min_cases_quick=80000,
                floors={'compare>64bit': 0.10, 'tail-decides': 0.02, 'exp:unordered': 0.05, 'exp:equivalent': 0.03, 'equivalent-but-different-chunking': 0.003,
                        'unsorted': 0.1, 'sorted': 0.5},
                rule='two chunk lists <= 40(+6) chunks; non-trivial = an exact comparison needs > 64 bits'),
            gen('vh_c30', 'up_feefrac', 200000, 4000000, rule='upstream fuzz target feefrac (arith_uint256 reference), supplementary'),
            gen('vh_c30', 'up_feefrac_div_fallback', 200000, 4000000, rule='upstream fuzz target, supplementary'),
            gen('vh_c30', 'up_feefrac_mul_div', 200000, 4000000, rule='upstream fuzz target, supplementary'),
            gen('vh_c30', 'up_build_and_compare_feerate_diagram', 60000, 1000000, rule='upstream fuzz target, supplementary'),
        # coverage-guided libFuzzer campaign on the same target (thorough tier only; fz tree = g++ trace-pc + covshim)
        fuzz('vh_c30', 'c30_feefrac', 300, max_len=96),
        fuzz('vh_c30', 'c30_diagram', 300, max_len=700),
    ]}

META = {'level_text': 'Generated search over fee/size pairs, fee*at/size evaluations, raw 96-bit divisions, CFeeRate::GetFee and pairs of feerate diagrams '
               '(millions of cases per quick run; uniform bit lengths and boundary dictionaries so that > 64-bit products, exact ties and +-1 neighbours '
               'are dense), each compared with exact 256-bit integer / rational arithmetic written from the statement. Exploration: samples the 2^192 '
               'input space, does not prove exactness.',
 'technique': 'property-based testing: boundary-biased generators + independent exact-arithmetic reference (differential); upstream fuzz targets as '
              'supplementary stages',
 'level_note': 'trusted base: boost::multiprecision int256_t, g++ __int128 only for reading the native result'}
