# C59: stage list (what ./check C59 quick|thorough runs) and manifest text. Helpers gen()/enum()/hyp()/custom() come from props.py.
SPEC = {'level': 'exploration',
 'assumptions': ['quotas from the statement: 4 by keyed netgroup, 8 by lowest min ping, 4 by latest novel tx, 4 by latest novel block',
                 'protected-for-sure(x, category) = fewer than quota OTHER candidates (among all candidates, noban and non-inbound included) have a key at least '
                 'as good as x (ties count against x); one-directional check: only the selected peer is examined',
                 'candidate ids are unique (as NodeIds are)'],
 'stages': [gen('vh_c59', 'c59_eviction', 1200000, 20000000, min_cases_quick=300000,
                floors={'selected': 0.3, 'none-selected': 0.1, 'has-noban': 0.3, 'has-non-inbound': 0.3, 'victim-selected': 0.005,
                        'victim:exactly-at-quota:netgroup': 0.015, 'victim:exactly-at-quota:ping': 0.015, 'victim:exactly-at-quota:txtime': 0.015,
                        'victim:exactly-at-quota:blocktime': 0.015, 'victim:just-outside-quota:netgroup': 0.015, 'victim:just-outside-quota:ping': 0.015,
                        'victim:just-outside-quota:txtime': 0.015, 'victim:just-outside-quota:blocktime': 0.015},
                rule='candidate sets of 0-130 peers with dense ties; half the cases plant a most-evictable victim whose rank in one category is exactly at / '
                     'just outside the quota; non-trivial = somebody selected from >= 29 candidates'),
            gen('vh_c59', 'up_node_eviction', 60000, 1000000, rule="upstream fuzz target 'node_eviction' (selected id is one of the candidates); supplementary"),
        # coverage-guided libFuzzer campaign on the same target (thorough tier only; fz tree = g++ trace-pc + covshim)
        fuzz('vh_c59', 'c59_eviction', 300, max_len=40),
    ]}

META = {'level_text': 'Generated candidate sets (1.2M per quick run, 0-130 peers, attributes from small value sets so that ties sit on every quota boundary; half of the '
               'sets contain a planted most-evictable peer ranked exactly at or just outside one protection quota, with rivals that may be noban/outbound); '
               'the peer returned by SelectNodeToEvict must be inbound, not noban and not protected under every tie order in any of the four categories '
               'computed over all candidates. Exploration: sampled sets; one-directional as the statement is.',
 'technique': 'property-based testing: structured/adversarial generator + independent rank-counting oracle derived from the statement; upstream node_eviction '
              'fuzz target as supplementary stage',
 'level_note': 'trusted base: the rank-counting oracle (~20 lines). Who is evicted among unprotected peers is not checked (not part of the statement).'}
