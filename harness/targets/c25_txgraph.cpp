// C25 placeholder translation unit (own model-based target to be added); upstream txgraph simulation is compiled in via c25.upstream
#include <engine/verif.h>
