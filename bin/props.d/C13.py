# C13: stage list (what ./check C13 quick|thorough runs) and manifest text. Helpers gen()/enum()/hyp()/custom() come from props.py.
SPEC = {'level': 'exploration',
 'assumptions': ['function level: sequences of CheckInputScripts calls (inline and via pvChecks + running the returned checks) on ONE long-lived ValidationCache are compared, call by '
                 'call, with a cache-free evaluation written by the harness (VerifyScript per input with the plain TransactionSignatureChecker)',
                 'the coin world is self-consistent: an outpoint always maps to the same output. This is the documented precondition of the script-execution cache ("assumes that '
                 'the inputs provided are correct": the txid commits to the spent outputs), so "different spent outputs" is exercised through different transactions that share '
                 'keys/signature hashes (legacy scriptSig variants, multisig with a repeated signature), not by lying about a coin',
                 'flag sets respect the interpreter preconditions (CLEANSTACK => P2SH|WITNESS, WITNESS => P2SH)',
                 'node level: one byte string drives the same MempoolSim history on a node with 1 MiB / 4 KiB caches and then on a node with 0-byte caches (CuckooCache then '
                 'holds 2 entries); all verdicts, tips and pool contents must agree line by line; the history generator is a deterministic function of the bytes and node state'],
 'stages': [gen('vh_c13', 'c13_checkinputs', 12000, 200000, min_cases_quick=4000,
                floors={'accept-then-reject-same-wtxid': 0.35, 'expected-script-cache-hit': 0.3, 'same-txid-different-witness-evaluated': 0.3, 'twin-accepted-and-rejected': 0.15,
                        'script-cache-hit-observed': 0.1, 'variant:bad-sig': 0.4, 'variant:lax-der': 0.15, 'variant:multisig-repeated-sig': 0.02, 'some-rejected': 0.9, 'tx:same-sig-vs-sibling-keys': 0.3, 'sibling-key:negated-point': 0.1,
                        'sibling-key:off-curve': 0.15, 'sibling-key:hybrid': 0.1},
                rule='40-160 CheckInputScripts calls per case on one ValidationCache vs cache-free evaluation; non-trivial = a wtxid accepted then rejected under another flag set and '
                     'an expected script-cache hit'),
            gen('vh_c13', 'c13_twin', 256, 4000, min_cases_quick=100,
                floors={'block-with-pool-txs': 0.3, 'reorg': 0.1, 'policy-only-invalid-flow': 0.2, 'candidate-block-tested': 0.25, 'resubmit': 0.2},
                rule='same history on a caching node and on a 0-byte-cache node; non-trivial = block with pool txs mined and (reorg or policy-only-invalid flow) and >=3 accepted')]}

META = {'level_text': 'Generated coin worlds (P2PKH, P2WPKH, P2SH-P2WPKH, P2TR, P2PK, CLTV/CSV scripts, 2-of-2 and 1-of-1 multisig, anyone-can-spend) and transactions with defect '
               'variants (witness twins, lax DER, undefined hash type, unsatisfied locks, non-null dummy, repeated multisig signature, scriptSig/witness extras); long call sequences '
               'on one signature + script-execution cache with flag sets that flip validity, random store booleans and deferred checks, every verdict and script error compared '
               'with a cache-free evaluation; plus a node-level twin run (same mempool/block/reorg history with and without caches, traces compared). Exploration.',
 'technique': 'property-based differential testing: cached CheckInputScripts vs cache-free per-input VerifyScript over generated call sequences; twin-run differential at node level',
 'level_note': 'trusted base: script interpreter and plain TransactionSignatureChecker (C10/C12), KeyRing signing kit'}
