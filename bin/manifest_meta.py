"""Human-written manifest text per property (level text, trusted base, technique)."""
HOOKS = {
    "guard": "BITCOIN_VERIF_HOOKS",
    "enable": "bin/configure.sh passes -DBITCOIN_VERIF_HOOKS via APPEND_CPPFLAGS to the san/tsan build trees under /verif/build; /repo/_build never defines it",
    "baseline_off_cmd": "cmake --build /repo/_build -j16 && ctest --test-dir /repo/_build -j8 --timeout 900",
    "source_commits": ["b80b6ad"],
    "add_only": True,
}
ENGINES = [
    {"name": "E1", "path": "harness/engine", "kind_free_text": "choice-sequence property driver (C++): seeded generation, out-of-process shrinking, replay; targets in harness/targets, kits in harness/kits",
     "serves_properties": []},
]
NOTES = ("All checks rebuild from /repo's working tree through ninja in /verif/build/san (g++ ASan+UBSan, -DABORT_ON_FAILED_ASSUME) before running. "
         "Exit 2 = broken run (build failure / degenerate generator), never a violation.")
NOT_APPLICABLE = {}
