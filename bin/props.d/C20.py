# C20: stage list (what ./check C20 quick|thorough runs) and manifest text. Helpers gen()/enum()/hyp()/custom() come from props.py.
SPEC = {
    "level": "exploration",
    "assumptions": [
        "deterministic 200-block regtest chain of test/util/mining.h CreateBlockChain() and its height-200 assumeutxo commitment in chainparams; the genuine "
        "snapshot is written by a source node with CreateUTXOSnapshot once per process (heights 110/299 commitments are not exercised)",
        "oracle = the harness' own decoder of the snapshot format (CompactSize, VARINT, amount and script decompression written from the format description); "
        "special script types 4/5 are treated as opaque distinct scripts (the genuine chain has none)",
        "one-directional: malformed / different coin set / wrong base / forbidden node state => activation fails and node untouched; files that decode to the "
        "identical coin set (reordered or duplicated groups) carry no claim",
        "background-validation mismatch is produced by adding a coin to the background chainstate before it reaches the base (as the unit test does), not by "
        "alternative chainparams",
    ],
    "stages": [
        gen("vh_c20", "c20_snapshot", 640, 10000, min_cases_quick=64, max_seconds_quick=300,
            floors={"activated": 0.1, "state-forbids": 0.1, "parseable-mutation-rejected": 0.3, "bg-validated": 0.02, "bg-mismatch-detected": 0.01},
            rule="fresh node + up to 8 mutated snapshot files; non-trivial = a coin-level mutation that keeps the file parseable was rejected"),
    ],
}

META = {
    "level_text": "Per case a fresh regtest node (headers of the committed chain known, k blocks connected, or a state that forbids activation) is offered up to 8 "
                  "single-mutation variants of a genuine node-written UTXO snapshot; an independent decoder of the file format decides whether the coin set still "
                  "equals the committed one. Whenever it does not (or the file is malformed, or the node state forbids it) activation must fail and the node must be "
                  "untouched (chainstates, tip, hash_serialized, no snapshot dir, next block connects). After a successful activation background validation must "
                  "complete for the genuine chain and must not for a tampered background UTXO set. Exploration over single-field mutations.",
    "technique": "property-based mutation testing with an independent format decoder as oracle (differential on accept/reject), state-unchanged invariant",
    "level_note": "trusted base: c20ref decoder in harness/targets/c20_snapshot.cpp (validated at start-up against the model UTXO set of the genuine chain), RefLedger",
}
