# C42: encryption histories with byte-pattern scans and signing oracles (E1) + crash images around EncryptWallet (E3).
SPEC = {
    'level': 'fault_enumeration',
    'assumptions': [
        'secrets = every private key the harness gave to or learned from the wallet through private descriptor strings (fixed harness tprv, generated seeds, imported WIF/tprv keys, '
        'keys generated after the encryption), each as raw 32 bytes, lowercase hex, WIF, base58 extended key and BIP32 payload (chain code||00||key); memory, swap and deleted '
        'file blocks are out of scope',
        '"its database file" = wallet.dat while the wallet is open, and every file of the wallet directory after a clean unload; the rollback journal that SQLite keeps open '
        'next to wallet.dat (exclusive locking mode) is scanned by the separate target c42_journal_residue',
        'signatures are judged by the script interpreter against the ORIGINAL scripts (own expansion of the original descriptors), never by the wallet',
        'wrong passphrases are derived from the right one (+NUL, +char, truncated, case flip, empty, swap); acceptance of a wrong passphrase by chance has probability < 2^-100',
        'mock time: the key-derivation work factor is the fixed default (25000 rounds)',
        'crash clause: fault model as the statement (kill / dropped unsynced suffix, ordered metadata), production SQLite durability, recorder self-checked per workload; cuts '
        'dense inside EncryptWallet (incl. the rewrite of the file)',
    ],
    'stages': [
        gen('vh_c42', 'c42_encrypt', 192, 4000, min_cases_quick=32, max_seconds_quick=300,
            floors={'passphrase-changed': 0.08, 'reloaded': 0.08, 'imported-keys': 0.3, 'born-encrypted-keys-scanned': 0.5},
            rule='wallet + imports + passphrase from the case bytes, EncryptWallet, 0-10 ops; non-trivial = >=1 wrong and >=1 right unlock + (passphrase change, mid-history reload or import while encrypted); distinct = configuration + op sequence'),
        gen('vh_c42', 'c42_journal_residue', 48, 640, min_cases_quick=16, max_seconds_quick=150,
            rule='scan of the open rollback journal right after EncryptWallet returned; every case is non-trivial'),
        custom('bin/crashsim/c42_worker.py', 96, 3200, name='c42_crash_images', needs=[('san', 'vh_c42')],
               min_cases_quick=8, floors={'in-op:encrypt': 0.3, 'image-loaded': 0.5},
               hard_timeout_quick=2400, max_seconds_quick=300, max_seconds_thorough=5400,
               rule='1 recorded encryption workload per worker (6 in thorough); two thirds of the cuts inside EncryptWallet; kill + power-loss images; oracle: no mix of plain and '
                    'encrypted key rows, encryption and descriptor-setup groups entirely before/after, image loads, encrypted => locked + a workload passphrase unlocks, '
                    'signatures verify for the original scripts, no secret in wallet.dat once EncryptWallet had returned; non-trivial = group judged or image scanned; '
                    'distinct = (workload, cut index, mode)'),
    ],
}

META = {
    'engine': 'E1 choice-sequence driver (c42_encrypt, c42_journal_residue) + E3 crash-image enumeration around EncryptWallet',
    'level_text': 'Generated wallets (fixed/generated/imported private descriptors) and passphrases (1 byte .. 1000 bytes, NUL, non-ASCII, empty): after EncryptWallet the '
                  'database file (and after a clean unload the whole wallet directory) contains none of the known secrets in five encodings; signing fails while locked and after '
                  'wrong passphrases; after the right one (also after a passphrase change and a reload) every input verifies against the original scripts and the public '
                  'descriptors are unchanged. Crash clause by fault enumeration over the recorded EncryptWallet (kill / power-loss images): fully unencrypted or fully encrypted, loads, signs.',
    'technique': 'property-based testing with byte-pattern scan, script-interpreter signature oracle and round trip across reload + fault injection by crash-image enumeration',
    'level_note': 'pattern scan covers the encodings listed in the assumptions, not arbitrary transformations of key material; ordered-metadata journal assumption for crash images',
}
