// C08 — The active chain is always a most-work chain free of invalid blocks.
//
// A block tree is grown over the 104-block base (forks of any length, forks below the base tip), some blocks invalid
// (at connect time: coinbase overpays / bad witness script / missing or double-spent or immature input; at accept time:
// wrong BIP34 height / non-final tx; header-level: time-too-old). Headers and full blocks are delivered in any order
// (headers first, children before parents, duplicates, mutated copies), interleaved with InvalidateBlock /
// ReconsiderBlock / PreciousBlock (driven exactly like the RPCs drive them).
//
// Oracle (from the statement, tie-agnostic; nothing is asked from the node except the tip hash and BLOCK_HAVE_DATA):
//   model validity  = RefLedger replay of the path (own UTXO/subsidy/maturity rules) + by-construction flags for the
//                     script / BIP34 / finality / header-time faults;
//   model storage   = which deliveries the node had to accept (header known and not under a manual invalidation);
//   V               = blocks whose whole ancestry is model-valid, model-stored and not under a manual invalidation.
//   after every step: (1) every block of the active chain is model-valid and is not (a descendant of) an invalidated block;
//                     (2) height(tip) >= max height over V (regtest: all blocks have equal work, work = height);
//                     (4) every block the model says is stored has BLOCK_HAVE_DATA in the node.
//   Manual invalidation is tracked with an under-approximation for (1) (roots of InvalidateBlock calls, dropped when a
//   relative is reconsidered) and an over-approximation for (2) (per-block "maybe failed" flags following the documented
//   reach of invalidate = block+descendants / reconsider = block+descendants+ancestors), so ties and the known
//   reconsider quirk (siblings stay failed) are never asserted.
#include <engine/verif.h>
#include <kits/chainsim.h>

#include <test/util/script.h>

#include <map>
#include <set>

using namespace verif;

namespace {

enum Kind : uint8_t { K_VALID, K_SPEND, K_OVERPAY, K_BADSCRIPT, K_MISSING, K_CBHEIGHT, K_NONFINAL, K_OLDTIME, K_NKINDS };
const char* const KIND_NAME[] = {"valid", "spend", "overpay", "badscript", "missing-input", "bad-cb-height", "nonfinal", "time-too-old"};

struct MB {
    std::shared_ptr<const CBlock> blk;
    uint256 hash;
    int parent{-1}; //!< index into the vector, -1 = genesis
    int height{0};
    Kind kind{K_VALID};
    bool header_bad{false};  //!< header contextually invalid: never enters the block index
    bool accept_bad{false};  //!< fails ContextualCheckBlock: marked failed on full delivery, never stored
    bool bad_self{false};    //!< this block itself is model-invalid (given a valid parent chain)
    bool strict_ok{false};   //!< all strict ancestors are model-valid  (=> known/stored are tracked exactly)
    bool chain_ok{false};    //!< strict_ok && !bad_self
    bool known{false};       //!< (tracked blocks only) header is in the node's index
    bool stored{false};      //!< (tracked blocks only) the node had to store the block data
    bool maybe_failed{false};//!< over-approximation of "carries a failure flag because of a manual invalidation"
    bool delivered_full{false};
};

struct Model {
    std::vector<MB> b;
    std::map<uint256, int> idx;
    std::set<int> inval_roots; //!< under-approximation: blocks that are certainly still invalidated

    bool IsAncOrSelf(int a, int d) const
    {
        while (d >= 0 && b[d].height > b[a].height) d = b[d].parent;
        return d == a;
    }
    void Invalidate(int x)
    {
        inval_roots.insert(x);
        for (size_t d = 0; d < b.size(); ++d) {
            if (!IsAncOrSelf(x, int(d))) continue;
            if (!b[d].strict_ok || b[d].known) b[d].maybe_failed = true;
        }
    }
    void Reconsider(int y)
    {
        for (size_t d = 0; d < b.size(); ++d) {
            if (IsAncOrSelf(y, int(d)) || IsAncOrSelf(int(d), y)) {
                b[d].maybe_failed = false;
                inval_roots.erase(int(d));
            }
        }
    }
    /** header of block e arrives; returns false if the node stops processing the message here (or the outcome is not tracked) */
    bool Header(int e)
    {
        MB& m = b[e];
        if (!m.strict_ok) return false;
        if (m.known) {
            if (m.maybe_failed) return false;
            if (m.bad_self) return false; // may or may not carry a genuine failure flag: descendants are untracked anyway
            return true;
        }
        bool parent_ok = m.parent < 0 || (b[m.parent].known && !b[m.parent].maybe_failed);
        if (!parent_ok || m.header_bad) return false;
        m.known = true;
        return true;
    }
    /** forced full-block delivery of e; returns true if the block was newly stored */
    bool Full(int e)
    {
        MB& m = b[e];
        m.delivered_full = true;
        if (!m.strict_ok) return false;
        if (m.known) {
            if (m.maybe_failed) return false;
        } else {
            bool parent_ok = m.parent < 0 || (b[m.parent].known && !b[m.parent].maybe_failed);
            if (!parent_ok || m.header_bad) return false;
            m.known = true;
        }
        if (m.accept_bad) return false; // marked failed by the node, no data
        if (m.stored) return false;
        // a connect-invalid block cannot carry a genuine failure flag before its data arrived, so the node must store it
        m.stored = true;
        return true;
    }
};

} // namespace

VERIF_TARGET(c08_chainsel, nullptr, 24, 420,
             "op histories (<=64 ops) over a 104-block regtest base: BUILD a block of one of 8 kinds (valid, valid spend, coinbase overpay, bad witness "
             "script, missing/double-spent/immature input, bad BIP34 height, non-final tx, time-too-old header) on any block of the tree (tip extension, "
             "fork 1-6 back, forks below the base tip, on invalid blocks) and deliver it now / header only / later; deliver HEADERS for a path, a full "
             "BLOCK (duplicates, parents missing), a branch in REVERSE order after its headers, a MUTATED copy; InvalidateBlock / ReconsiderBlock / "
             "PreciousBlock on any block; 30% of cases run with CheckBlockIndex off so that the statement-level oracle stands alone. After every op: "
             "active chain model-valid and free of invalidated blocks, tip height >= best fully valid+stored+not-invalidated block, stored blocks have "
             "data; at the end everything is delivered parents-first, all invalidations reconsidered and the tip must equal the best valid height. "
             "non-trivial = >=3 leaves, an invalid block with more work than the best valid chain was delivered on a stored ancestry, and a block was "
             "stored before its parent; distinct = op-kind sequence + block kinds + reorg/invalidate outcomes")
{
    ChainSimOpts o;
    bool cbi = !s.chance(77);
    o.check_block_index = cbi ? 1 : 0;
    auto simp = std::make_unique<ChainSim>(o);
    ChainSim& sim = *simp;
    auto base = sim.LoadBase(104);
    const int NBASE = int(base.size());
    Model M;
    for (int i = 0; i < NBASE; ++i) {
        MB m;
        m.blk = sim.block_store.at(base[i]); m.hash = base[i]; m.parent = i - 1; m.height = i + 1;
        m.strict_ok = m.chain_ok = m.known = m.stored = true;
        M.idx[m.hash] = i;
        M.b.push_back(m);
    }
    st.cls(cbi ? "checkblockindex-on" : "checkblockindex-off");

    int last_built = NBASE - 1;
    int reorgs = 0, n_out_of_order = 0, n_invalid_beat = 0, n_inval_active = 0, n_recon_switch = 0;
    uint32_t nonce = 1;

    auto node_index = [&](const uint256& h) -> CBlockIndex* { LOCK(cs_main); return sim.chainman().m_blockman.LookupBlockIndex(h); };
    auto coin_of_base = [&](int k) { // coinbase of base height k (1-based)
        const CTransactionRef& cb = M.b[k - 1].blk->vtx[0];
        return std::make_pair(COutPoint(cb->GetHash(), 0), RefCoin{cb->vout[0].nValue, cb->vout[0].scriptPubKey, k, true});
    };

    auto check = [&](const char* where) {
        st.steps++;
        uint256 tip = sim.TipHash();
        auto it = M.idx.find(tip);
        VCHECK(it != M.idx.end(), "c08.tip-unknown", where, "active tip is not a block the harness built", tip.ToString());
        int t = it->second;
        // (1) active chain: model-valid, no invalidated block
        for (int c = t; c >= 0; c = M.b[c].parent) {
            VCHECK(!M.b[c].bad_self, "c08.invalid-in-active-chain", where, "block", M.b[c].hash.ToString(), "h", M.b[c].height, "kind", KIND_NAME[M.b[c].kind], "tip h", M.b[t].height);
            VCHECK(!M.inval_roots.count(c), "c08.invalidated-in-active-chain", where, "block", M.b[c].hash.ToString(), "h", M.b[c].height, "is under InvalidateBlock but in the active chain; tip h", M.b[t].height);
        }
        // (2) most work over V;  (4) stored => HAVE_DATA
        std::vector<char> inV(M.b.size(), 0);
        int best = 0, best_i = -1;
        bool invalid_beats = false;
        for (size_t i = 0; i < M.b.size(); ++i) {
            const MB& m = M.b[i];
            bool pv = m.parent < 0 || inV[m.parent];
            inV[i] = pv && m.chain_ok && m.stored && !m.maybe_failed;
            if (inV[i] && m.height > best) { best = m.height; best_i = int(i); }
        }
        for (size_t i = NBASE; i < M.b.size(); ++i) {
            const MB& m = M.b[i];
            if (m.strict_ok && m.bad_self && m.delivered_full && m.known && !m.maybe_failed && (m.parent < 0 || inV[m.parent]) && m.height > best) invalid_beats = true;
            if (m.strict_ok && m.stored) {
                CBlockIndex* pi = node_index(m.hash);
                bool have = pi && WITH_LOCK(cs_main, return (pi->nStatus & BLOCK_HAVE_DATA) != 0);
                VCHECK(have, "c08.data-missing", where, "block", m.hash.ToString(), "h", m.height, "was delivered on an accepted header but has no BLOCK_HAVE_DATA");
            }
        }
        if (invalid_beats) n_invalid_beat++;
        VCHECK(M.b[t].height >= best, "c08.not-most-work", where, "tip h", M.b[t].height, tip.ToString(), "but fully valid stored block at h", best, best_i >= 0 ? M.b[best_i].hash.ToString() : "");
    };

    auto track_tip = [&](const uint256& old_tip) {
        uint256 nt = sim.TipHash();
        if (nt == old_tip) return 0;
        auto a = M.idx.find(old_tip), b = M.idx.find(nt);
        if (a == M.idx.end() || b == M.idx.end()) return 1;
        if (M.IsAncOrSelf(a->second, b->second)) return 1; // extension
        int depth = 0;
        for (int c = a->second; c >= 0 && !M.IsAncOrSelf(c, b->second); c = M.b[c].parent) depth++;
        reorgs++;
        st.cls("reorg");
        if (depth >= 2) st.cls("reorg-depth>=2");
        st.mix(uint64_t(200 + std::min(depth, 20)));
        st.note("  reorg depth=", depth, " tip h=", M.b[b->second].height);
        return 2;
    };

    auto deliver_full = [&](int i) {
        uint256 old_tip = sim.TipHash();
        bool parent_stored_before = M.b[i].parent < 0 || M.b[M.b[i].parent].stored;
        bool newly = M.Full(i);
        auto d = sim.Deliver(M.b[i].blk, /*force=*/true);
        if (newly && !parent_stored_before && M.b[i].strict_ok) { n_out_of_order++; st.cls("stored-before-parent"); }
        st.note("block #", i, " h=", M.b[i].height, " ", KIND_NAME[M.b[i].kind], newly ? " stored" : "", d.verdict ? " verdict=" + StateStr(*d.verdict) : "");
        track_tip(old_tip);
    };
    auto deliver_headers = [&](int i, int depth) {
        std::vector<int> path;
        for (int c = i; c >= NBASE && int(path.size()) <= depth; c = M.b[c].parent) path.push_back(c);
        std::reverse(path.begin(), path.end());
        std::vector<CBlockHeader> hs;
        for (int c : path) hs.push_back(static_cast<const CBlockHeader&>(*M.b[c].blk));
        bool go = true;
        for (int c : path) { if (!go) break; go = M.Header(c); }
        BlockValidationState state;
        sim.chainman().ProcessNewBlockHeaders(hs, /*min_pow_checked=*/true, state);
        st.note("headers #", path.front(), "..#", i, " (", path.size(), ")", state.IsValid() ? "" : " -> " + StateStr(state));
    };

    unsigned nops = s.range<unsigned>(3, 64);
    for (unsigned op = 0; op < nops; ++op) {
        unsigned kind = s.range<unsigned>(0, 15);
        int n = int(M.b.size());
        auto pick_block = [&]() { // any block from base height 99 upwards, biased to recent ones
            int lo = NBASE - 6;
            if (s.chance(128)) return std::max(lo, n - 1 - int(s.index(std::min(n - lo, 6))));
            return lo + int(s.index(n - lo));
        };
        if (kind <= 7) {
            // ---- BUILD
            int parent;
            unsigned psel = s.range<unsigned>(0, 9);
            if (psel <= 4) parent = last_built;
            else if (psel == 5) parent = M.idx.at(sim.TipHash());
            else if (psel <= 7) { parent = last_built; int back = s.range<int>(1, 6); while (back-- > 0 && parent > NBASE - 7) parent = M.b[parent].parent; }
            else parent = pick_block();
            Kind k = K_VALID;
            if (s.chance(80)) k = Kind(s.range<unsigned>(1, K_NKINDS - 1));
            int height = M.b[parent].height + 1;
            BlockSpec spec;
            spec.prev = M.b[parent].hash;
            spec.extra_nonce = nonce++;
            MB m;
            m.parent = parent; m.height = height; m.kind = k;
            bool script_bad = false;
            if (k == K_SPEND || k == K_BADSCRIPT || k == K_NONFINAL) {
                int cbh = s.range<int>(1, 4);
                auto coin = coin_of_base(cbh);
                CMutableTransaction tx = sim.MakeTx({coin}, {CTxOut(coin.second.value, P2WSH_OP_TRUE)}, k == K_NONFINAL ? uint32_t(height) : 0, k == K_NONFINAL ? 0 : 0xffffffff);
                if (k == K_BADSCRIPT) { tx.vin[0].scriptWitness.stack = {std::vector<unsigned char>{OP_TRUE, OP_TRUE}}; script_bad = true; } // wrong witness script for the program
                if (k == K_NONFINAL) m.accept_bad = true;
                spec.txs.push_back(MakeTransactionRef(tx));
            } else if (k == K_MISSING) {
                COutPoint ghost(Txid::FromUint256(uint256{uint8_t(nonce & 0xff)}), 0);
                CMutableTransaction tx = sim.MakeTx({{ghost, RefCoin{1000, P2WSH_OP_TRUE, 1, false}}}, {CTxOut(1000, P2WSH_OP_TRUE)});
                spec.txs.push_back(MakeTransactionRef(tx));
            } else if (k == K_OVERPAY) {
                spec.coinbase_value = RefLedger::Subsidy(height, sim.ledger.halving_interval) + 1;
            } else if (k == K_CBHEIGHT) {
                spec.coinbase_scriptsig = CScript() << (height + 1) << OP_0;
                m.accept_bad = true;
            } else if (k == K_OLDTIME) {
                spec.time = uint32_t(sim.ledger.MedianTimePast(spec.prev));
                m.header_bad = true;
            }
            auto blk = sim.Build(spec);
            m.blk = blk; m.hash = blk->GetHash();
            m.strict_ok = M.b[parent].chain_ok;
            if (m.strict_ok) {
                RefReplay r = sim.ledger.Replay(m.hash);
                m.bad_self = !r.ok || script_bad || m.accept_bad || m.header_bad;
                if (!r.ok) assert(r.bad_block == m.hash);
            } else {
                m.bad_self = true; // irrelevant: never in V, ancestry already invalid
            }
            m.chain_ok = m.strict_ok && !m.bad_self;
            int i = int(M.b.size());
            M.idx[m.hash] = i;
            M.b.push_back(m);
            last_built = i;
            unsigned mode = s.range<unsigned>(0, 5); // 0-2 deliver now, 3 header only, 4-5 later
            st.mix(uint64_t(1 + k + 16 * mode));
            st.cls(std::string("kind-") + KIND_NAME[k]);
            if (m.strict_ok && m.bad_self) st.cls("invalid-on-valid-parent");
            st.note("BUILD #", i, " on #", parent, " h=", height, " ", KIND_NAME[k], m.chain_ok ? "" : (m.strict_ok ? " [model: invalid]" : " [model: invalid ancestry]"));
            if (mode <= 2) deliver_full(i);
            else if (mode == 3) deliver_headers(i, 0);
        } else if (kind <= 9) {
            int i = pick_block();
            if (s.chance(140)) { // prefer a block that was built but never delivered in full
                std::vector<int> pool;
                for (int c = NBASE; c < n; ++c) if (!M.b[c].delivered_full) pool.push_back(c);
                if (!pool.empty()) i = pool[pool.size() - 1 - s.index(pool.size())];
            }
            if (i < NBASE) continue;
            st.mix(uint64_t(40)); st.cls("op-block");
            if (M.b[i].stored) st.cls("duplicate-delivery");
            deliver_full(i);
        } else if (kind == 10) {
            int i = pick_block();
            if (i < NBASE) continue;
            int depth = s.range<int>(0, 12);
            st.mix(uint64_t(41)); st.cls("op-headers");
            deliver_headers(i, depth);
        } else if (kind == 11) {
            // announce a branch with headers, then deliver its missing blocks children-first
            int i = pick_block();
            if (i < NBASE) continue;
            st.mix(uint64_t(42)); st.cls("op-reverse-branch");
            deliver_headers(i, 63);
            int cnt = 0;
            for (int c = i; c >= NBASE && cnt < 8; c = M.b[c].parent) { if (M.b[c].strict_ok && M.b[c].stored) break; deliver_full(c); check("reverse-branch"); cnt++; }
        } else if (kind == 12) {
            int i = pick_block();
            CBlock mut = *M.b[i].blk;
            mut.vtx.push_back(mut.vtx[0]); // header kept, transaction list changed: merkle root mismatch
            mut.fChecked = false; mut.m_checked_merkle_root = false; mut.m_checked_witness_commitment = false;
            uint256 old_tip = sim.TipHash();
            auto d = sim.Deliver(std::make_shared<const CBlock>(mut), true);
            st.mix(uint64_t(43)); st.cls("op-mutated");
            st.note("mutated copy of #", i, d.verdict ? " verdict=" + StateStr(*d.verdict) : "");
            VCHECK(sim.TipHash() == old_tip, "c08.mutated-moved-tip", "a mutated copy changed the tip");
        } else if (kind == 13) {
            int i = pick_block();
            CBlockIndex* pi = node_index(M.b[i].hash);
            if (!pi) continue;
            bool active = WITH_LOCK(cs_main, return sim.chainman().ActiveChain().Contains(*pi));
            uint256 old_tip = sim.TipHash();
            BlockValidationState state;
            bool ok = sim.chainstate().InvalidateBlock(state, pi);
            VCHECK(ok && state.IsValid(), "c08.invalidate-failed", "InvalidateBlock returned", ok, StateStr(state));
            M.Invalidate(i);
            st.steps++;
            VCHECK(!WITH_LOCK(cs_main, return sim.chainman().ActiveChain().Contains(*pi)), "c08.invalidated-in-active-chain", "right after InvalidateBlock of #", i);
            sim.chainstate().ActivateBestChain(state);
            sim.SyncSignals();
            if (active) { n_inval_active++; st.cls("invalidate-active"); } else st.cls("invalidate-side");
            st.mix(uint64_t(44 + (active ? 100 : 0)));
            st.note("invalidate #", i, " h=", M.b[i].height, active ? " (active)" : " (side)");
            track_tip(old_tip);
        } else if (kind == 14) {
            int i;
            if (!M.inval_roots.empty() && s.chance(160)) { auto it = M.inval_roots.begin(); std::advance(it, s.index(M.inval_roots.size())); i = *it; }
            else i = pick_block();
            CBlockIndex* pi = node_index(M.b[i].hash);
            if (!pi) continue;
            uint256 old_tip = sim.TipHash();
            {
                LOCK(cs_main);
                sim.chainstate().ResetBlockFailureFlags(pi);
                sim.chainman().RecalculateBestHeader();
            }
            BlockValidationState state;
            sim.chainstate().ActivateBestChain(state);
            sim.SyncSignals();
            bool was_root = M.inval_roots.count(i) > 0;
            M.Reconsider(i);
            st.mix(uint64_t(45)); st.cls(was_root ? "reconsider-invalidated" : "reconsider-other");
            st.note("reconsider #", i, " h=", M.b[i].height);
            if (track_tip(old_tip)) { n_recon_switch++; st.cls("reconsider-moved-tip"); }
        } else {
            int i = pick_block();
            if (s.chance(128)) { // prefer a competitor of the tip (same height, other branch)
                int th = sim.TipHeight();
                std::vector<int> ties;
                for (int c = NBASE - 6; c < n; ++c) if (M.b[c].height == th && M.b[c].hash != sim.TipHash()) ties.push_back(c);
                if (!ties.empty()) i = ties[s.index(ties.size())];
            }
            CBlockIndex* pi = node_index(M.b[i].hash);
            if (!pi) continue;
            uint256 old_tip = sim.TipHash();
            BlockValidationState state;
            sim.chainstate().PreciousBlock(state, pi);
            sim.SyncSignals();
            st.mix(uint64_t(46)); st.cls("op-precious");
            st.note("precious #", i, " h=", M.b[i].height);
            if (track_tip(old_tip) == 2) st.cls("precious-switched");
        }
        check("step");
    }

    // ---- closing sweep: everything delivered parents-first, every invalidation reconsidered => the tip must be the best valid block
    for (int i = NBASE; i < int(M.b.size()); ++i) {
        if (M.b[i].strict_ok && M.b[i].stored) continue;
        deliver_full(i);
    }
    check("sweep");
    {
        int guard = 0;
        while (!M.inval_roots.empty() && guard++ < 64) {
            int i = *M.inval_roots.begin();
            CBlockIndex* pi = node_index(M.b[i].hash);
            assert(pi);
            {
                LOCK(cs_main);
                sim.chainstate().ResetBlockFailureFlags(pi);
                sim.chainman().RecalculateBestHeader();
            }
            BlockValidationState state;
            sim.chainstate().ActivateBestChain(state);
            sim.SyncSignals();
            M.Reconsider(i);
            st.note("final reconsider #", i);
            check("final-reconsider");
        }
        // blocks whose delivery was refused while an ancestor was invalidated can be delivered now
        for (int i = NBASE; i < int(M.b.size()); ++i) {
            if (M.b[i].strict_ok && M.b[i].stored) continue;
            deliver_full(i);
        }
        check("final");
    }

    // tree statistics
    std::vector<int> nchild(M.b.size(), 0);
    for (size_t i = NBASE; i < M.b.size(); ++i) if (M.b[i].parent >= 0) nchild[M.b[i].parent]++;
    int leaves = 0, forks = 0;
    for (size_t i = NBASE - 7; i < M.b.size(); ++i) { if (i >= size_t(NBASE) && nchild[i] == 0) leaves++; if (nchild[i] >= 2) forks++; }
    if (leaves >= 3) st.cls("leaves>=3");
    if (n_invalid_beat) st.cls("invalid-beats-best");
    if (n_out_of_order) st.cls("out-of-order");
    st.nontrivial = leaves >= 3 && n_invalid_beat > 0 && n_out_of_order > 0;
    st.mix(uint64_t(leaves)); st.mix(uint64_t(reorgs)); st.mix(uint64_t(n_inval_active)); st.mix(uint64_t(n_recon_switch));
    st.note("blocks=", M.b.size() - NBASE, " leaves=", leaves, " forks=", forks, " reorgs=", reorgs, " out-of-order=", n_out_of_order, " invalid-beats-best(checks)=", n_invalid_beat,
            " final tip h=", sim.TipHeight());
}
