// Engine E1 — choice-sequence property driver (DESIGN.md §3.2).
// A target is a pure function of the bytes behind `Src` (plus the code under test).
#ifndef VERIF_ENGINE_VERIF_H
#define VERIF_ENGINE_VERIF_H

#include <test/fuzz/FuzzedDataProvider.h>

#include <cstdint>
#include <cstdio>
#include <functional>
#include <initializer_list>
#include <map>
#include <sstream>
#include <string>
#include <vector>

namespace verif {

/** Per-case statistics, filled by the target; aggregated by the driver into evidence. */
struct Stats {
    bool nontrivial{false};            //!< case satisfied the target's non-triviality rule
    uint64_t shape{0xcbf29ce484222325ULL}; //!< hash of the decoded case shape (op kinds + salient params)
    std::map<std::string, uint64_t> classes; //!< labels observed in this case
    bool want_sample{false};           //!< driver wants a decoded description in `sample`
    std::string sample;                //!< decoded case (operation list), only if want_sample
    uint64_t steps{0};                 //!< number of oracle comparisons made in this case

    void cls(const std::string& name, uint64_t n = 1) { classes[name] += n; }
    void mix(uint64_t v)
    {
        for (int i = 0; i < 8; ++i) { shape ^= (v >> (8 * i)) & 0xff; shape *= 0x100000001b3ULL; }
    }
    void mix(const std::string& s)
    {
        for (unsigned char c : s) { shape ^= c; shape *= 0x100000001b3ULL; }
        mix(uint64_t{s.size()});
    }
    /** Append to the decoded description (cheap no-op unless the driver asked for a sample). */
    template <typename... A>
    void note(const A&... a)
    {
        if (!want_sample) return;
        if (sample.size() > 6000) { if (sample.size() < 6010) sample += " ...[truncated]"; return; }
        std::ostringstream os;
        (os << ... << a);
        if (!sample.empty()) sample += "; ";
        sample += os.str();
    }
};

/** Choice source: FuzzedDataProvider semantics (exhausted buffer => zeros => simplest choice). */
class Src : public FuzzedDataProvider
{
public:
    Src(const uint8_t* d, size_t n) : FuzzedDataProvider(d, n) {}
    /** integer in [lo, hi] */
    template <typename T>
    T range(T lo, T hi) { return ConsumeIntegralInRange<T>(lo, hi); }
    /** true with probability ~ num/256; false when the buffer is exhausted (zeros => simplest choice) */
    bool chance(unsigned num_of_256) { return ConsumeIntegralInRange<unsigned>(0, 255) + num_of_256 >= 256; }
    bool boolean() { return ConsumeBool(); }
    size_t index(size_t n) { return n <= 1 ? 0 : ConsumeIntegralInRange<size_t>(0, n - 1); }
    template <typename T>
    const T& pick(const std::vector<T>& v) { return v[index(v.size())]; }
    template <typename T>
    T pick(std::initializer_list<T> l) { return *(l.begin() + index(l.size())); }
    /** boundary-biased signed 64-bit value: one of `boundary` +- delta(0..3), or raw */
    int64_t biased64(std::initializer_list<int64_t> boundary)
    {
        unsigned mode = ConsumeIntegralInRange<unsigned>(0, 3);
        if (mode == 3 || boundary.size() == 0) return ConsumeIntegral<int64_t>();
        int64_t b = *(boundary.begin() + index(boundary.size()));
        int d = ConsumeIntegralInRange<int>(-3, 3);
        if (mode == 0) d = 0;
        if ((d > 0 && b > INT64_MAX - d) || (d < 0 && b < INT64_MIN - d)) return b;
        return b + d;
    }
    std::vector<uint8_t> bytes(size_t n) { return ConsumeBytes<uint8_t>(n); }
    bool exhausted() { return remaining_bytes() == 0; }
};

/** Report an oracle failure: prints `ORACLE-FAIL <id> <msg>`, saves the input, exits with code 77. */
[[noreturn]] void fail(const std::string& oracle_id, const std::string& msg);

#define VCHECK(cond, oracle_id, ...)                                     \
    do {                                                                 \
        if (!(cond)) {                                                   \
            std::ostringstream vcheck_os;                                \
            vcheck_os << #cond << " @" << __FILE__ << ":" << __LINE__ << " "; \
            ::verif::detail::stream_all(vcheck_os, ##__VA_ARGS__);       \
            ::verif::fail((oracle_id), vcheck_os.str());                 \
        }                                                                \
    } while (0)

namespace detail {
inline void stream_all(std::ostringstream&) {}
template <typename T, typename... R>
void stream_all(std::ostringstream& os, const T& t, const R&... r) { os << t; ((os << " " << r), ...); }
} // namespace detail

using TargetFn = std::function<void(Src&, Stats&)>;
using InitFn = std::function<void()>;

struct TargetInfo {
    std::string name;
    TargetFn fn;
    InitFn init;          //!< one-time process initialisation (may be null)
    std::string rule;     //!< how cases are generated and what makes one non-trivial
    size_t min_len;       //!< generated buffer length ramp (bytes)
    size_t max_len;
};

std::map<std::string, TargetInfo>& registry();
struct Registrar {
    Registrar(const std::string& name, TargetFn fn, InitFn init, const std::string& rule, size_t min_len, size_t max_len)
    {
        registry()[name] = TargetInfo{name, std::move(fn), std::move(init), rule, min_len, max_len};
    }
};

/** Define a target. `init` may be nullptr. */
#define VERIF_TARGET(name, init, min_len, max_len, rule)                               \
    static void name##_target(::verif::Src& s, ::verif::Stats& st);                    \
    static ::verif::Registrar name##_registrar(#name, name##_target, init, rule, min_len, max_len); \
    static void name##_target([[maybe_unused]] ::verif::Src& s, [[maybe_unused]] ::verif::Stats& st)

/** For exhaustive sub-runs: case index when the driver runs in --enumerate mode (else -1). */
int64_t enum_index();
/** Exhaustive targets report the size of their finite space through this (driver prints it). */
void set_enum_total(uint64_t total);

std::string hex(const std::vector<uint8_t>& v);
std::string hex(const unsigned char* p, size_t n);

} // namespace verif

#endif // VERIF_ENGINE_VERIF_H
