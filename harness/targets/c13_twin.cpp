// C13 — Validation caches never change a verdict (node level).
//
// The same byte-driven history (mempool acceptance, test-accept, packages, TestBlockValidity of candidate blocks, blocks mined from pool subsets and from
// non-pool transactions, InvalidateBlock / reconsider reorgs, re-submission of known transactions, and transactions that are consensus-valid but violate a
// policy-only script flag, shown to the node first inside a candidate block and then as loose transactions) is run on TWO nodes, one after the other (nodes
// cannot coexist in a process): node A with signature / script-execution caches of 1 MiB, node B with 0-byte caches. Every observable verdict is recorded:
// accept results with reject reasons, package results, block verdicts, tip after each operation, pool transaction set after each operation.
//   c13.twin-divergence   the two traces are identical line by line
// The generator reads the node state (spendable coins, pool), so any behavioural difference also makes later operations differ: the first differing line is reported.
#include <engine/verif.h>
#include <kits/mempoolsim.h>

#include <hash.h>

#include <set>

using namespace verif;

namespace {

struct Trace {
    std::vector<std::string> lines;
    unsigned blocks_with_pool_txs{0}, reorgs{0}, policy_only_flows{0}, resubmits{0}, accepted{0}, candidate_tests{0};
};

std::string PoolDigest(const PoolSnap& snap)
{
    HashWriter h;
    for (const auto& [id, e] : snap.entries) h << id.ToUint256() << e.tx->GetWitnessHash().ToUint256();
    return strprintf("pool=%d:%s", snap.entries.size(), h.GetHash().ToString().substr(0, 12));
}

/** a P2PKH spend whose scriptSig carries an extra element: fine for consensus (legacy scripts need no clean stack), refused by policy (CLEANSTACK) */
CTransactionRef PolicyOnlyInvalidTx(MempoolSim& ms, Src& s)
{
    std::vector<Spendable> sp = ms.Spendables();
    for (const auto& x : sp) {
        if (x.unconfirmed || x.spent_by || !ms.IsMatureAtNext(x.coin)) continue;
        if (x.coin.spk.size() != 25 || x.coin.spk[0] != OP_DUP) continue;
        TxPlan p;
        p.inputs = {x};
        p.fee = 3000 + s.range<CAmount>(0, 500);
        p.change_scripts = {ms.OutScript(s)};
        CMutableTransaction m(*ms.Build(p));
        CScript ns;
        ns << OP_1;
        ns.insert(ns.end(), m.vin[0].scriptSig.begin(), m.vin[0].scriptSig.end());
        m.vin[0].scriptSig = ns;
        CTransactionRef t = MakeTransactionRef(m);
        ms.known_txs[t->GetHash()] = t;
        return t;
    }
    return nullptr;
}

Trace RunHistory(const std::vector<uint8_t>& bytes, bool no_cache, Stats* st)
{
    Trace tr;
    Src s(bytes.data(), bytes.size());
    MempoolSimOpts o;
    o.min_validation_cache = no_cache;
    o.with_mempool_checks = false;
    const unsigned cfg = s.range<unsigned>(0, 2);
    if (cfg == 1) o.extra_args.push_back("-limitclustercount=8");
    if (cfg == 2 && !no_cache) o.validation_cache_bytes = 4096; // a small (evicting) cache on the cached side
    MempoolSim ms(o);
    auto log = [&](const std::string& l) { tr.lines.push_back(l); if (st) Note(*st, l); };
    auto after = [&](const char* what) { const PoolSnap& snap = ms.Sync(); tr.lines.push_back(strprintf("%s tip=%s h=%d %s", what, snap.tip.ToString().substr(0, 12), snap.tip_height, PoolDigest(snap))); };
    std::vector<CTransactionRef> policy_only;
    const unsigned nops = s.range<unsigned>(6, 26);
    for (unsigned op = 0; op < nops && !s.exhausted(); ++op) {
        const unsigned kind = s.range<unsigned>(0, 15);
        if (st) st->mix(uint64_t(kind));
        if (kind <= 5) {
            GenTx g = ms.Gen(s);
            if (!g.tx) continue;
            if (!g.package.empty()) {
                const bool ta = s.chance(40);
                auto r = ms.SubmitPackage(g.package, ta);
                log(strprintf("pkg %s%s -> %s", GenKindName(g.kind), ta ? " test" : "", PkgStateStr(r)));
            } else {
                if (s.chance(50)) { auto r0 = ms.Submit(g.tx, /*test_accept=*/true); log(strprintf("test-accept %s -> %s", GenKindName(g.kind), TxStateStr(r0))); }
                auto r = ms.Submit(g.tx);
                if (r.m_result_type == MempoolAcceptResult::ResultType::VALID) tr.accepted++;
                if (g.kind == GenKind::RESUBMIT) tr.resubmits++;
                log(strprintf("tx %s -> %s", GenKindName(g.kind), TxStateStr(r)));
            }
        } else if (kind == 6 || kind == 7) {
            // candidate block (TestBlockValidity caches script results under the block's flags): pool transactions and/or a policy-only-invalid transaction
            std::vector<CTransactionRef> txs;
            const PoolSnap& snap = ms.LastSnap();
            const ModelPool& m = ms.Belief();
            if (auto topo = m.TopoOrder()) for (const auto& t : *topo) if (s.chance(170)) { bool ok = true; for (const auto& p : m.parents.at(t)) { bool have = false; for (const auto& x : txs) if (x->GetHash() == p) have = true; if (!have) ok = false; } if (ok) txs.push_back(m.txs.at(t)); }
            (void)snap;
            if (s.chance(150)) if (auto t = PolicyOnlyInvalidTx(ms, s)) { txs.push_back(t); policy_only.push_back(t); }
            CAmount fees = 0;
            const std::string verdict = ms.ModelNextBlockVerdict(txs, &fees);
            if (!verdict.empty() || txs.empty()) { log("candidate skipped"); continue; }
            const CBlock b = ms.MakeCandidateBlock(txs, fees);
            const BlockValidationState bs = ms.sim().TestValidity(b);
            tr.candidate_tests++;
            log(strprintf("candidate block txs=%d -> %s", txs.size(), StateStr(bs)));
        } else if (kind == 8) {
            // a transaction seen in a candidate block now arrives loose
            if (policy_only.empty()) { if (auto t = PolicyOnlyInvalidTx(ms, s)) policy_only.push_back(t); }
            if (policy_only.empty()) continue;
            const CTransactionRef t = policy_only[s.index(policy_only.size())];
            auto r = ms.Submit(t, s.chance(60));
            tr.policy_only_flows++;
            log(strprintf("policy-only-invalid tx -> %s", TxStateStr(r)));
        } else if (kind == 9 || kind == 10) {
            const PoolSnap& snap = ms.LastSnap();
            std::set<Txid> subset;
            const unsigned mode = s.range<unsigned>(0, 2);
            for (const auto& [id, e] : snap.entries) if (mode == 0 || s.boolean()) subset.insert(id);
            std::vector<CTransactionRef> extra;
            if (s.chance(100)) if (auto t = ms.GenBlockOnlyTx(s, s.boolean())) extra.push_back(t);
            if (s.chance(60) && !policy_only.empty()) extra.push_back(policy_only[s.index(policy_only.size())]);
            auto m = ms.MineFromPool(subset, extra, s.pick<int64_t>({0, 0, 600}));
            if (m.block->vtx.size() > 1 && !subset.empty()) tr.blocks_with_pool_txs++;
            log(strprintf("mine txs=%d dropped=%d -> %s became_tip=%d", m.block->vtx.size() - 1, m.dropped.size(), m.delivery.verdict ? StateStr(*m.delivery.verdict) : "no-verdict", m.became_tip));
        } else if (kind == 11 || kind == 15) {
            if (kind == 15 && s.chance(90)) { ms.AdvanceTime(s.pick<int64_t>({30, 600, 4000})); log("time"); }
            const int before = ms.TipHeight();
            ms.InvalidateTip(s.range<int>(1, 3));
            if (ms.TipHeight() < before) tr.reorgs++;
            log(strprintf("invalidate -> height %d", ms.TipHeight()));
        } else if (kind == 12) {
            ms.ReconsiderAll();
            log(strprintf("reconsider -> height %d", ms.TipHeight()));
        } else if (kind == 13) {
            GenTx g = ms.GenOfKind(s, GenKind::RESUBMIT);
            if (!g.tx) continue;
            auto r = ms.Submit(g.tx);
            tr.resubmits++;
            log(strprintf("resubmit -> %s", TxStateStr(r)));
        } else if (kind == 14) {
            GenTx g = ms.GenOfKind(s, GenKind::JUNK);
            if (!g.tx) continue;
            auto r = ms.Submit(g.tx);
            log(strprintf("junk -> %s", TxStateStr(r)));
        }
        after("after");
    }
    return tr;
}

} // namespace

VERIF_TARGET(c13_twin, nullptr, 128, 1200,
             "one byte string drives the same 6-26 operation history (submit/test-accept generated transactions and packages incl. junk with bad witnesses and re-submissions, "
             "TestBlockValidity of candidate blocks holding pool transactions and consensus-valid-but-policy-invalid transactions, the latter then submitted loose, mine blocks from "
             "pool subsets + non-pool transactions, InvalidateBlock depth 1-3, reconsider, time) on node A (1 MiB or 4 KiB caches) and then on node B (0-byte caches); the traces of "
             "verdicts, tips and pool contents must be identical. non-trivial = a block containing pool transactions was mined, and a reorg or a policy-only-invalid flow happened, "
             "and >= 3 transactions were accepted; distinct = op kinds, counts")
{
    const std::vector<uint8_t> bytes = s.ConsumeRemainingBytes<uint8_t>();
    const Trace a = RunHistory(bytes, /*no_cache=*/false, &st);
    const Trace b = RunHistory(bytes, /*no_cache=*/true, nullptr);
    st.steps += a.lines.size();
    const size_t n = std::min(a.lines.size(), b.lines.size());
    for (size_t i = 0; i < n; ++i) {
        VCHECK(a.lines[i] == b.lines[i], "c13.twin-divergence", "line", i, "with caches:", a.lines[i], "| without caches:", b.lines[i]);
    }
    VCHECK(a.lines.size() == b.lines.size(), "c13.twin-divergence", "trace lengths differ:", a.lines.size(), "vs", b.lines.size());
    if (a.blocks_with_pool_txs) st.cls("block-with-pool-txs");
    if (a.reorgs) st.cls("reorg");
    if (a.policy_only_flows) st.cls("policy-only-invalid-flow");
    if (a.candidate_tests) st.cls("candidate-block-tested");
    if (a.resubmits) st.cls("resubmit");
    st.nontrivial = a.blocks_with_pool_txs > 0 && (a.reorgs > 0 || a.policy_only_flows > 0) && a.accepted >= 3;
    st.mix(uint64_t(a.blocks_with_pool_txs)); st.mix(uint64_t(a.reorgs)); st.mix(uint64_t(a.accepted));
}
