# Included via -DCMAKE_PROJECT_INCLUDE=... for every project() call of the repo build.
# Defers inclusion of the harness targets until the top-level CMakeLists.txt has been processed,
# so all repo targets (bitcoin_node, test_util, ...) exist. Does not touch /repo.
get_property(_vh_done GLOBAL PROPERTY VERIF_HARNESS_INJECTED)
if(NOT _vh_done)
  set_property(GLOBAL PROPERTY VERIF_HARNESS_INJECTED 1)
  cmake_language(EVAL CODE "cmake_language(DEFER DIRECTORY [[${CMAKE_SOURCE_DIR}]] CALL include [[${CMAKE_CURRENT_LIST_DIR}/targets.cmake]])")
endif()
