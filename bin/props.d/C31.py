# C31: stage list (what ./check C31 quick|thorough runs) and manifest text. Helpers gen()/enum()/hyp()/custom() come from props.py.
SPEC = {'level': 'exploration',
 'assumptions': ['closed-form reference: 50e8 sat halved once per completed interval, 0 from the 64th halving'],
 'stages': [{'kind': 'gen',
             'binary': 'vh_c31',
             'target': 'c31_boundaries',
             'cases_quick': 3000000,
             'cases_thorough': 30000000,
             'rule': 'heights around halving boundaries; non-trivial = within +-3 of boundary k<=64'},
            {'kind': 'enum', 'binary': 'vh_c31', 'target': 'c31_all_heights', 'rule': 'exhaustive: all 2^31 heights x distinct halving intervals'}]}

META = {'level_text': 'Every non-negative 32-bit height for every distinct halving interval of the built-in chains is enumerated and compared with the closed form '
               '(value, monotonicity, chunk sums, total < 21M BTC): exhaustive for the stated domain. Category kept at exploration because the deciding step '
               'is still executed search, not proof.',
 'technique': 'exhaustive enumeration of the input domain vs closed-form reference (property-based, exhaustive:true)'}
