# C06: stage list (what ./check C06 quick|thorough runs) and manifest text. Helpers gen()/enum()/hyp()/custom() come from props.py.
SPEC = {'level': 'exploration',
 'assumptions': ['own calculators (kits/consensus_ref: static sigop scan, BIP16 accurate P2SH count, BIP141 witness count and x4 scaling; sizes/weight from the fields; BIP34 minimal height push) are the reference',
                 'legacy sigops after OP_RETURN are counted (static scan of the whole script), sigop bytes inside push data or after a truncated push are not',
                 'transaction-count bound (4 x count <= 4,000,000) is not reachable independently of the size bound and is only modelled; blocks are tuned with the reference calculators, probes that miss the target are still judged but not counted as boundary cases'],
 'stages': [gen('vh_c06', 'c06_limits', 300, 5000, min_cases_quick=40, max_seconds_quick=900, max_seconds_thorough=7200,
                floors={'accept': 0.5, 'reject:bad-blk-sigops': 0.2, 'reject:bad-blk-weight': 0.08, 'reject:bad-blk-length': 0.03, 'reject:bad-cb-height': 0.1,
                        'sigops-near-limit-3-kinds': 0.3, 'sigops@limit': 0.08, 'sigops@limit+1': 0.08, 'weight@limit': 0.03, 'weight@limit+1': 0.03,
                        'kind:p2sh': 0.3, 'kind:p2wsh': 0.3, 'kind:p2sh-p2wsh': 0.3, 'kind:scriptsig': 0.3, 'kind:p2wpkh': 0.3},
                rule='blocks at limit+-delta; non-trivial = sigop probe within +-4 of 80,000 mixing >=3 sigop kinds, or weight/size probe within +-4 of the limit'),
            gen('vh_c06', 'c06_sigops', 150000, 3000000, min_cases_quick=15000, max_seconds_quick=600, max_seconds_thorough=3600,
                floors={'legacy-sigops': 0.3, 'p2sh-sigops': 0.03, 'witness-sigops': 0.05, 'truncated-or-accurate-multisig': 0.1},
                rule='per-script / per-tx counters vs reference; non-trivial = >=2 sigop kinds non-zero, or truncated push / OP_n+CHECKMULTISIG present')]}

META = {'level_text': 'Blocks assembled on a real in-process regtest node exactly at and around each limit (sigop cost 80,000, weight 4,000,000, stripped size 1,000,000) using sigops in every countable and '
               'uncountable position (coinbase scriptSig, outputs incl. after OP_RETURN / inside pushes / after truncated pushes, scriptSigs, P2SH redeem scripts, P2WSH and P2SH-P2WSH witness scripts, '
               'P2WPKH), plus structure faults (no / two / misplaced coinbase, empty block) and BIP34 height encodings; TestBlockValidity / ProcessNewBlock verdict must equal the verdict of independent '
               'weight, size and sigop-cost calculators and a structure predicate, reject reason must belong to a violated rule. The repo counters are also compared per script and per transaction with the '
               'reference calculators on generated opcode soup. Exploration.',
 'technique': 'property-based testing against independent reference calculators; boundary-tuned block construction',
 'level_note': 'trusted base: the reference calculators (about 150 lines), harness block/transaction builder; script validity of the carriers by construction (sigops sit in never-executed branches)'}
