// C15 — Layered coin caches behave like a single map and never lose or resurrect coins.
//
// Code under test: CCoinsViewCache (coins.cpp) stacked 1-3 deep over a real CCoinsViewDB (txdb.cpp, in-memory LevelDB).
// Oracle: an independent model written from the statement: the DB is a std::map<outpoint, coin>; every cache layer is a
// std::map<outpoint, coin | SPENT> of "own entries"; a layer's view = own entries over the parent's view. The model knows
// nothing about FRESH/DIRTY. After EVERY operation every layer (and the DB) is read back with PeekCoin (non-caching) for the
// whole outpoint domain and compared with the model view; the per-operation return values (GetCoin/HaveCoin/AccessCoin/
// SpendCoin+moveout) are compared as well. Accounting: GetCacheSize / GetDirtyCount / DynamicMemoryUsage are recomputed from
// the entries actually present (read through a subclass that exposes the protected map; heap bytes as allocated, bounded below
// by the MODEL's script sizes), and the documented meaning of the flags (coins.h) is checked against the model views:
//   unspent entry == view(layer); spent entry => view(layer) empty and entry DIRTY; clean entry == view(parent);
//   FRESH => DIRTY and view(parent) empty.
// Preconditions respected (read from the callers): AddCoin(possible_overwrite=false) only when the model view of the TOP layer
// has no coin; mutations only on the top layer (a lower layer never changes its view while a child exists; Flush/Sync/
// Uncache/reads of lower layers keep the view and are generated); a layer is flushed to the DB only with a non-null best
// block (CCoinsViewDB::BatchWrite asserts it). Any std::logic_error thrown by the cache is therefore a failure.
//
// Left out: CoinsViewOverlay (threaded prevout fetcher) as a layer kind; EmplaceCoinInternalDANGER; on-disk LevelDB.
#include <engine/verif.h>

#include <coins.h>
#include <memusage.h>
#include <test/util/setup_common.h>
#include <txdb.h>
#include <uint256.h>

#include <map>
#include <memory>
#include <optional>
#include <stdexcept>
#include <vector>

namespace {

constexpr int NOUT = 4;      //!< outpoint domain of c15_cachesim (c15_smallscope uses the first 2)
constexpr int NVARIANT = 3;  //!< spendable coin variants (variant 3 = unspendable OP_RETURN script, AddCoin must ignore it)

void init() { static auto setup{MakeNoLogFileContext<BasicTestingSetup>()}; }

struct MCoin {
    int variant{0};
    uint32_t height{0};
    bool operator==(const MCoin& o) const { return variant == o.variant && height == o.height; }
};

COutPoint Outpoint(int i)
{
    // outpoints 0 and 1 share a txid (adjacent DB keys), 2 and 3 have their own
    auto mk = [](uint8_t a, uint8_t b) { uint256 h; h.data()[0] = a; h.data()[13] = 0xc1; h.data()[14] = 0x5c; h.data()[31] = b; return h; };
    static const uint256 h0{mk(0x11, 0xaa)}, h1{mk(0x22, 0xbb)}, h2{mk(0xff, 0x00)};
    switch (i) {
    case 0: return COutPoint(Txid::FromUint256(h0), 0);
    case 1: return COutPoint(Txid::FromUint256(h0), 1);
    case 2: return COutPoint(Txid::FromUint256(h1), 0);
    default: return COutPoint(Txid::FromUint256(h2), 70000); // multi-byte VARINT index in the DB key
    }
}

CScript VariantScript(int v)
{
    CScript s;
    switch (v) {
    case 0: s.resize(22); s[0] = OP_0; s[1] = 20; for (int i = 2; i < 22; ++i) s[i] = uint8_t(i); break;          // direct storage: 0 bytes of heap
    case 1: s.resize(40); s[0] = OP_1; for (int i = 1; i < 40; ++i) s[i] = uint8_t(0x50 + i); break;               // indirect
    case 2: s.resize(75); s[0] = OP_DUP; for (int i = 1; i < 75; ++i) s[i] = uint8_t(0x90 + (i % 16)); break;      // indirect, bigger
    default: s.resize(10); s[0] = OP_RETURN; for (int i = 1; i < 10; ++i) s[i] = 1; break;                          // unspendable
    }
    return s;
}
CAmount VariantValue(int v) { return v == 0 ? 1000 : v == 1 ? CAmount{5000000000} : v == 2 ? MAX_MONEY : 1; }
bool VariantCoinbase(int v) { return v == 1; }

Coin MakeCoin(const MCoin& m) { return Coin(CTxOut(VariantValue(m.variant), VariantScript(m.variant)), int(m.height), VariantCoinbase(m.variant)); }

bool SameCoin(const Coin& c, const MCoin& m)
{
    return !c.IsSpent() && c.out.nValue == VariantValue(m.variant) && c.out.scriptPubKey == VariantScript(m.variant) &&
           c.fCoinBase == VariantCoinbase(m.variant) && c.nHeight == m.height;
}

std::string Str(const std::optional<MCoin>& m)
{
    if (!m) return "none";
    return "v" + std::to_string(m->variant) + "@" + std::to_string(m->height);
}
std::string Str(const Coin& c)
{
    if (c.IsSpent()) return "none";
    return "val=" + std::to_string(c.out.nValue) + ",len=" + std::to_string(c.out.scriptPubKey.size()) + ",h=" + std::to_string(c.nHeight) + ",cb=" + std::to_string(c.fCoinBase);
}

/** exposes the protected state for the accounting recomputation */
class Probe : public CCoinsViewCache
{
public:
    using CCoinsViewCache::CCoinsViewCache;
    const CCoinsMap& Map() const { return cacheCoins; }
    size_t CoinsUsage() const { return cachedCoinsUsage; }
};

using Own = std::map<int, std::optional<MCoin>>; //!< nullopt = SPENT marker

/** Constructing a CCoinsViewDB and CCoinsViewCaches (256 KiB pool chunk each) per case is slow under ASan (mmap per object), which matters for the
 *  exhaustive stage: the objects are created once per process and per DB batch size, and brought back to the empty state at the start of every case
 *  (the emptiness is verified, see Sim::Sim). */
constexpr int DB_REUSE = 8; // chosen by reasoning (bounded version chains, amortised DB construction); timing comparisons were drowned by machine load
struct Pool {
    int uses{0};
    std::unique_ptr<CCoinsViewDB> db;
    std::unique_ptr<Probe> c[3];
};
Pool& GetPool(uint64_t batch_bytes)
{
    static std::map<uint64_t, Pool> pools;
    Pool& p = pools[batch_bytes];
    auto new_db = [&] {
        p.uses = 0;
        p.db.reset();
        p.db = std::make_unique<CCoinsViewDB>(DBParams{.path = "", .cache_bytes = 1 << 18, .memory_only = true}, CoinsViewOptions{.batch_write_bytes = batch_bytes});
        if (p.c[0]) p.c[0]->SetBackend(*p.db);
    };
    auto new_caches = [&] {
        for (int i = 2; i >= 0; --i) p.c[i].reset();
        p.c[0] = std::make_unique<Probe>(p.db.get(), /*deterministic=*/true);
        p.c[1] = std::make_unique<Probe>(p.c[0].get(), /*deterministic=*/true);
        p.c[2] = std::make_unique<Probe>(p.c[1].get(), /*deterministic=*/true);
    };
    // LevelDB keeps every version of the 4 keys in its memtable and the cursor walks all of them: renew the DB now and then
    if (!p.db || ++p.uses >= DB_REUSE) new_db();
    if (!p.c[0]) new_caches();
    // Bring the pooled objects back to the state of freshly constructed ones (caches empty with an unset best block, DB without coins) using the
    // cache's own operations; whatever is not verifiably clean afterwards is REPLACED by a fresh object, so that every case starts from the same
    // state whatever the code under test did in an earlier case (a case must be a pure function of its bytes, or failures would not replay).
    for (auto& c : p.c) { auto guard{c->CreateResetGuard()}; }
    bool any = false;
    for (int op = 0; op < NOUT; ++op) any |= p.c[0]->SpendCoin(Outpoint(op));
    if (any) {
        uint256 h;
        h.data()[0] = 0xcc; h.data()[31] = 0xb1;
        p.c[0]->SetBestBlock(h);
        p.c[0]->Flush(/*reallocate_cache=*/false);
    }
    for (auto& c : p.c) { auto guard{c->CreateResetGuard()}; }
    if (p.db->Cursor()->Valid()) new_db();
    bool caches_clean = true;
    for (auto& c : p.c) if (c->GetCacheSize() != 0 || c->GetDirtyCount() != 0 || c->CoinsUsage() != 0 || !c->Map().empty()) caches_clean = false;
    if (!caches_clean) new_caches();
    return p;
}

struct Sim {
    verif::Stats& st;
    int nout;
    Pool& pool;
    CCoinsViewDB& db;
    std::vector<Probe*> caches; //!< caches[0] sits on the DB
    // model
    std::map<int, MCoin> m_db;
    uint256 m_db_best;
    struct Layer { Own own; uint256 best; };
    std::vector<Layer> m_layers;
    uint32_t clock{1};     //!< height given to the next added coin (every add is distinguishable)
    uint32_t hash_ctr{0};
    // non-triviality: per outpoint progress  add(1) -> carried down by flush/sync(2) -> spend(3) -> carried down(4) -> re-add(5)
    int progress[NOUT] = {0, 0, 0, 0};
    bool full_pattern{false};
    bool cross_flush_rewrite{false}; //!< small-scope rule: an outpoint written, carried down, written again
    int carried[NOUT] = {0, 0, 0, 0};

    Sim(verif::Stats& st_, int nout_, uint64_t batch_bytes)
        : st(st_), nout(nout_), pool(GetPool(batch_bytes)), db(*pool.db)
    {
        m_db_best = db.GetBestBlock(); // whatever an earlier case left; only coins matter (GetPool guarantees an empty DB and empty caches)
        Push();
    }

    int Top() const { return int(caches.size()) - 1; }

    /** model view of layer `k` (k = -1: the DB) */
    std::optional<MCoin> View(int k, int op) const
    {
        for (int i = k; i >= 0; --i) {
            auto it = m_layers[i].own.find(op);
            if (it != m_layers[i].own.end()) return it->second;
        }
        auto it = m_db.find(op);
        if (it != m_db.end()) return it->second;
        return std::nullopt;
    }
    uint256 ModelBest(int k)
    {
        if (k < 0) return m_db_best;
        if (m_layers[k].best.IsNull()) m_layers[k].best = ModelBest(k - 1); // GetBestBlock caches the parent's answer
        return m_layers[k].best;
    }
    uint256 NewHash()
    {
        uint256 h;
        ++hash_ctr;
        h.data()[0] = uint8_t(hash_ctr); h.data()[1] = uint8_t(hash_ctr >> 8); h.data()[31] = 0xb1;
        return h;
    }

    void Push()
    {
        caches.push_back(pool.c[caches.size()].get()); // empty, best block unset (see constructor / Pop)
        m_layers.emplace_back();
    }
    void Discarded(const Own& own)
    {
        for (auto& [op, e] : own) if (progress[op] == 1 || progress[op] == 3) progress[op] = 0;
    }
    void Pop()
    {
        Discarded(m_layers.back().own);
        { auto guard{caches.back()->CreateResetGuard()}; } // dropping a layer discards its modifications (pooled object: reset instead of destroyed)
        caches.pop_back();
        m_layers.pop_back();
    }
    void Reset()
    {
        Discarded(m_layers.back().own);
        { auto guard{caches.back()->CreateResetGuard()}; }
        m_layers.back().own.clear();
        m_layers.back().best.SetNull();
        st.steps++;
        VCHECK(caches.back()->GetCacheSize() == 0 && caches.back()->GetDirtyCount() == 0, "c15.reset-empties", "cache not empty after Reset");
    }
    void SetBest(int k)
    {
        uint256 h = NewHash();
        caches[k]->SetBestBlock(h);
        m_layers[k].best = h;
    }
    void CheckBest(int k)
    {
        uint256 want = ModelBest(k);
        uint256 got = caches[k]->GetBestBlock();
        st.steps++;
        VCHECK(got == want, "c15.bestblock", "layer", k, "got", got.ToString(), "model", want.ToString());
    }

    /** returns false if the add was a no-op (unspendable) */
    void Add(int op, int variant, bool want_overwrite_flag)
    {
        const int t = Top();
        std::optional<MCoin> before = View(t, op);
        bool po = want_overwrite_flag || before.has_value(); // precondition: false only if the coin is absent from the whole view
        MCoin m{variant, clock++};
        caches[t]->AddCoin(Outpoint(op), MakeCoin(m), po);
        if (variant >= NVARIANT) { st.cls("add-unspendable-ignored"); return; }
        m_layers[t].own[op] = m;
        if (before) st.cls("add-overwrites-unspent");
        if (!before && po) st.cls("add-overwrite-flag-on-absent");
        if (progress[op] == 0) progress[op] = 1;
        else if (progress[op] == 4) { progress[op] = 5; full_pattern = true; }
        if (carried[op] >= 1) cross_flush_rewrite = true;
    }
    void Spend(int op, bool with_moveout)
    {
        const int t = Top();
        std::optional<MCoin> before = View(t, op);
        Coin moved;
        bool r = caches[t]->SpendCoin(Outpoint(op), with_moveout ? &moved : nullptr);
        st.steps++;
        // one-directional: the return value for an absent coin is not specified (a cached spent entry yields true); callers only rely on "present => true"
        VCHECK(r || !before.has_value(), "c15.spend-result", "SpendCoin returned", r, "model view", Str(before), "outpoint", op, "layer", t);
        if (with_moveout) {
            if (before) VCHECK(SameCoin(moved, *before), "c15.spend-moveout", "moveout", Str(moved), "model", Str(before), "outpoint", op);
            else VCHECK(moved.IsSpent(), "c15.spend-moveout", "moveout filled for an absent coin", Str(moved), "outpoint", op);
        }
        m_layers[t].own[op] = std::nullopt;
        if (before) {
            if (progress[op] == 2) progress[op] = 3;
            if (carried[op] >= 1) cross_flush_rewrite = true;
        } else {
            st.cls("spend-missing");
        }
    }
    /** kind 0 GetCoin, 1 HaveCoin, 2 AccessCoin (all may populate the cache), 3 PeekCoin */
    void Read(int k, int op, int kind)
    {
        std::optional<MCoin> want = View(k, op);
        st.steps++;
        if (kind == 0 || kind == 3) {
            std::optional<Coin> got = kind == 0 ? caches[k]->GetCoin(Outpoint(op)) : caches[k]->PeekCoin(Outpoint(op));
            VCHECK(got.has_value() == want.has_value() && (!want || SameCoin(*got, *want)), "c15.read", kind == 0 ? "GetCoin" : "PeekCoin", "layer", k, "outpoint", op,
                   "got", got ? Str(*got) : "none", "model", Str(want));
        } else if (kind == 1) {
            bool got = caches[k]->HaveCoin(Outpoint(op));
            VCHECK(got == want.has_value(), "c15.read", "HaveCoin layer", k, "outpoint", op, "got", got, "model", Str(want));
        } else {
            const Coin& got = caches[k]->AccessCoin(Outpoint(op));
            VCHECK(got.IsSpent() == !want.has_value() && (!want || SameCoin(got, *want)), "c15.read", "AccessCoin layer", k, "outpoint", op, "got", Str(got), "model", Str(want));
        }
    }
    void Uncache(int k, int op)
    {
        bool cached = caches[k]->HaveCoinInCache(Outpoint(op));
        caches[k]->Uncache(Outpoint(op));
        if (cached && !caches[k]->HaveCoinInCache(Outpoint(op))) st.cls("uncache-removed");
    }
    /** Flush (erase) or Sync (keep) layer k into its parent */
    void Write(int k, bool sync, bool realloc)
    {
        if (k == 0 && m_layers[0].best.IsNull()) SetBest(0); // CCoinsViewDB::BatchWrite requires a non-null best block
        if (sync) caches[k]->Sync(); else caches[k]->Flush(realloc);
        // model: parent := child's view
        Layer& L = m_layers[k];
        for (auto& [op, e] : L.own) {
            if (k == 0) { if (e) m_db[op] = *e; else m_db.erase(op); }
            else m_layers[k - 1].own[op] = e;
            if (e && progress[op] == 1) progress[op] = 2;
            if (!e && progress[op] == 3) progress[op] = 4;
            carried[op]++;
        }
        if (k == 0) m_db_best = L.best; else m_layers[k - 1].best = L.best;
        L.own.clear();
        st.steps++;
        VCHECK(caches[k]->GetDirtyCount() == 0, "c15.write-cleans", sync ? "Sync" : "Flush", "left dirty entries", caches[k]->GetDirtyCount());
        if (!sync) VCHECK(caches[k]->GetCacheSize() == 0, "c15.write-cleans", "Flush left entries", caches[k]->GetCacheSize());
        if (k == 0) { CheckDb(); CheckAll(/*with_db=*/true); st.cls("db-write"); }
    }

    /** DB content (cursor) == model map exactly: no spent entries, nothing lost, nothing extra */
    void CheckDb()
    {
        std::map<int, Coin> got;
        std::unique_ptr<CCoinsViewCursor> cur = db.Cursor();
        size_t n = 0;
        while (cur->Valid()) {
            COutPoint k;
            Coin c;
            bool ok = cur->GetKey(k) && cur->GetValue(c);
            VCHECK(ok, "c15.db-content", "unreadable DB record");
            int idx = -1;
            for (int i = 0; i < NOUT; ++i) if (Outpoint(i) == k) idx = i;
            VCHECK(idx >= 0, "c15.db-content", "foreign key in DB", k.ToString());
            got[idx] = c;
            ++n;
            cur->Next();
        }
        st.steps++;
        VCHECK(n == m_db.size(), "c15.db-content", "DB has", n, "records, model", m_db.size());
        for (auto& [op, m] : m_db) {
            auto it = got.find(op);
            VCHECK(it != got.end() && SameCoin(it->second, m), "c15.db-content", "outpoint", op, "db", it == got.end() ? std::string("missing") : Str(it->second), "model", Str(m));
        }
        VCHECK(db.GetBestBlock() == m_db_best, "c15.bestblock", "DB best block", db.GetBestBlock().ToString(), "model", m_db_best.ToString());
    }

    /** after every operation: every layer equals its model view; accounting and flag meaning recomputed */
    void CheckAll(bool with_db = false)
    {
        for (int op = 0; with_db && op < nout; ++op) {
            std::optional<Coin> got = db.GetCoin(Outpoint(op));
            auto it = m_db.find(op);
            st.steps++;
            VCHECK(got.has_value() == (it != m_db.end()) && (!got || SameCoin(*got, it->second)), "c15.db-read", "outpoint", op, "db", got ? Str(*got) : "none",
                   "model", it == m_db.end() ? std::string("none") : Str(it->second));
            VCHECK(db.HaveCoin(Outpoint(op)) == (it != m_db.end()), "c15.db-read", "HaveCoin outpoint", op);
        }
        for (int k = 0; k < int(caches.size()); ++k) {
            Probe& c = *caches[k];
            c.SanityCheck();
            size_t entries = 0, dirty = 0, usage = 0, usage_min = 0;
            for (int op = 0; op < nout; ++op) {
                std::optional<MCoin> want = View(k, op);
                std::optional<MCoin> parent = View(k - 1, op);
                std::optional<Coin> got = c.PeekCoin(Outpoint(op));
                st.steps++;
                VCHECK(got.has_value() == want.has_value() && (!want || SameCoin(*got, *want)), "c15.layer-view", "layer", k, "outpoint", op, "cache", got ? Str(*got) : "none",
                       "model", Str(want));
                auto it = c.Map().find(Outpoint(op));
                bool in_cache_unspent = c.HaveCoinInCache(Outpoint(op));
                if (it == c.Map().end()) {
                    VCHECK(!in_cache_unspent, "c15.accounting", "HaveCoinInCache without entry");
                    continue;
                }
                ++entries;
                const CCoinsCacheEntry& e = it->second;
                if (e.IsDirty()) ++dirty;
                VCHECK(in_cache_unspent == !e.coin.IsSpent(), "c15.accounting", "HaveCoinInCache disagrees with entry");
                if (e.coin.IsSpent()) {
                    VCHECK(!want, "c15.entry-vs-model", "spent entry but model view has", Str(want), "layer", k, "outpoint", op);
                    VCHECK(e.IsDirty() && !e.IsFresh(), "c15.flag-meaning", "spent entry must be DIRTY and not FRESH; layer", k, "outpoint", op);
                } else {
                    VCHECK(want && SameCoin(e.coin, *want), "c15.entry-vs-model", "unspent entry", Str(e.coin), "model view", Str(want), "layer", k, "outpoint", op);
                    // heap bytes of the entry as allocated (a copy-assigned script keeps a larger old capacity, so the model's script size is only a lower bound)
                    usage += e.coin.DynamicMemoryUsage();
                    usage_min += memusage::DynamicUsage(VariantScript(want->variant));
                }
                if (!e.IsDirty()) {
                    // a clean entry mirrors the parent: dropping it (Uncache) or keeping it may not change the view
                    VCHECK(!e.IsFresh(), "c15.flag-meaning", "FRESH without DIRTY; layer", k, "outpoint", op);
                    VCHECK(parent && !e.coin.IsSpent() && SameCoin(e.coin, *parent), "c15.flag-meaning", "clean entry differs from the parent's view; layer", k, "outpoint", op,
                           "entry", Str(e.coin), "parent", Str(parent));
                }
                if (e.IsFresh()) {
                    // coins.h: FRESH means the parent does not have this coin (or has it spent)
                    VCHECK(!parent, "c15.flag-meaning", "FRESH entry but the parent's view has the coin", Str(parent), "layer", k, "outpoint", op);
                }
            }
            st.steps++;
            VCHECK(c.Map().size() == entries, "c15.accounting", "entries outside the outpoint domain", c.Map().size(), entries);
            VCHECK(c.GetCacheSize() == entries, "c15.accounting", "GetCacheSize", c.GetCacheSize(), "recomputed", entries, "layer", k);
            VCHECK(c.GetDirtyCount() == dirty, "c15.accounting", "GetDirtyCount", c.GetDirtyCount(), "recomputed", dirty, "layer", k);
            VCHECK(c.DynamicMemoryUsage() == memusage::DynamicUsage(c.Map()) + usage, "c15.accounting", "DynamicMemoryUsage", c.DynamicMemoryUsage(), "map",
                   memusage::DynamicUsage(c.Map()), "+ coins recomputed", usage, "layer", k);
            VCHECK(usage >= usage_min, "c15.accounting", "coin heap usage", usage, "below the size of the model's scripts", usage_min, "layer", k);
        }
    }
};

const char* READ_NAMES[] = {"get", "have", "access", "peek"};

} // namespace

VERIF_TARGET(c15_cachesim, init, 24, 4096,
             "random op sequences (up to ~1600 ops) over 1-3 CCoinsViewCache layers on an in-memory CCoinsViewDB, 4 outpoints x 3 coin variants (+ unspendable): "
             "AddCoin(overwrite T/F, F only when the model view is empty), SpendCoin(+-moveout), Get/Have/Access/Peek on any layer, HaveCoinInCache, Uncache (any layer), "
             "Flush/Sync (any layer), SetBestBlock/GetBestBlock, push/pop layer, Reset via ResetGuard, DB batch size 32 B..16 MiB; after every op all layers + DB are "
             "compared with per-layer std::map models and the accounting is recomputed. non-trivial = some outpoint went add -> flush/sync -> spend -> flush/sync -> "
             "re-add; distinct = op-kind/outpoint/layer sequence")
{
    try {
        uint64_t batch = s.pick<uint64_t>({16 << 20, 32, 100, 300});
        Sim sim(st, NOUT, batch);
        if (batch < 1000) st.cls("small-db-batch");
        unsigned maxlayers = 1;
        sim.CheckAll();
        while (!s.exhausted()) {
            unsigned r = s.range<unsigned>(0, 99);
            int op = int(s.index(NOUT));
            const int top = sim.Top();
            if (r < 12) { // read on any layer
                int k = int(s.index(sim.caches.size()));
                int kind = int(s.index(4));
                sim.Read(k, op, kind);
                st.mix(uint64_t(0x100 + kind * 16 + k * 4 + op)); st.note(READ_NAMES[kind], " L", k, " o", op);
            } else if (r < 40) { // add
                int variant = s.chance(8) ? NVARIANT : int(s.index(NVARIANT));
                bool po = s.chance(64);
                sim.Add(op, variant, po);
                st.mix(uint64_t(0x200 + variant * 8 + po * 4 + op)); st.note("add o", op, " v", variant, po ? " po" : "");
            } else if (r < 62) { // spend
                bool mv = s.boolean();
                sim.Spend(op, mv);
                st.mix(uint64_t(0x300 + mv * 4 + op)); st.note("spend o", op, mv ? " mv" : "");
            } else if (r < 72) { // flush / sync the top layer
                bool sync = s.boolean();
                bool realloc = s.chance(24); // ReallocateCache allocates a fresh 256 KiB pool chunk: keep it rare (slow under ASan)
                sim.Write(top, sync, realloc);
                st.mix(uint64_t(0x400 + sync * 4 + top)); st.note(sync ? "sync L" : "flush L", top);
            } else if (r < 78) { // flush / sync any layer (view-preserving for the layers above)
                int k = int(s.index(sim.caches.size()));
                bool sync = s.boolean();
                sim.Write(k, sync, false);
                if (k < top) st.cls("lower-layer-write");
                st.mix(uint64_t(0x480 + sync * 4 + k)); st.note(sync ? "sync L" : "flush L", k);
            } else if (r < 84) { // uncache on any layer
                int k = int(s.index(sim.caches.size()));
                sim.Uncache(k, op);
                st.mix(uint64_t(0x500 + k * 4 + op)); st.note("uncache L", k, " o", op);
            } else if (r < 89) { // push layer
                if (sim.caches.size() < 3) { sim.Push(); st.mix(uint64_t(0x600)); st.note("push"); maxlayers = std::max<unsigned>(maxlayers, sim.caches.size()); }
            } else if (r < 92) { // pop layer (discarding its modifications)
                if (sim.caches.size() > 1) { sim.Pop(); st.mix(uint64_t(0x601)); st.note("pop"); st.cls("pop-discard"); }
            } else if (r < 95) {
                sim.Reset();
                st.mix(uint64_t(0x602)); st.note("reset"); st.cls("reset");
            } else if (r < 97) {
                int k = int(s.index(sim.caches.size()));
                sim.SetBest(k);
                st.mix(uint64_t(0x700 + k)); st.note("setbest L", k);
            } else {
                int k = int(s.index(sim.caches.size()));
                sim.CheckBest(k);
                st.mix(uint64_t(0x710 + k)); st.note("getbest L", k);
            }
            sim.CheckAll();
        }
        // wind down: flush everything to the DB and compare the DB with the bottom model
        for (int k = sim.Top(); k >= 0; --k) { sim.Write(k, /*sync=*/false, false); sim.CheckAll(); }
        st.nontrivial = sim.full_pattern;
        if (sim.full_pattern) st.cls("spend-after-flush-then-readd");
        if (sim.cross_flush_rewrite) st.cls("rewrite-after-carry-down");
        st.cls("layers=" + std::to_string(maxlayers));
    } catch (const std::logic_error& e) {
        verif::fail("c15.logic-error", std::string("cache threw logic_error although all documented preconditions were respected: ") + e.what());
    }
}

// ------------------------------------------------------------------------------------------------
// Exhaustive small scope: ALL sequences of N operations from a 19-letter alphabet over 2 outpoints and 2 cache layers
// (L1 over L0 over DB) from the empty state, and all sequences of N-1 operations from 3 deeper start states. Checks after every op, so every
// shorter sequence is covered as a prefix.
namespace {

constexpr int SS_ALPHA = 19;
constexpr int SS_PREFIXES = 4;

const char* SS_NAMES[SS_ALPHA] = {"addA", "addA!", "spendA", "getA", "uncA", "get0A", "unc0A", "addB", "addB!", "spendB", "getB", "uncB", "get0B", "unc0B",
                                  "flush1", "sync1", "flush0", "sync0", "reset1"};

void SsApply(Sim& sim, int letter)
{
    if (letter < 14) {
        int op = letter / 7, k = letter % 7;
        switch (k) {
        case 0: sim.Add(op, int(sim.clock % NVARIANT), false); break; // overwrite flag only if the precondition demands it
        case 1: sim.Add(op, int(sim.clock % NVARIANT), true); break;
        case 2: sim.Spend(op, (sim.clock & 1) != 0); break;
        case 3: sim.Read(1, op, 0); break;
        case 4: sim.Uncache(1, op); break;
        case 5: sim.Read(0, op, 0); break;
        case 6: sim.Uncache(0, op); break;
        }
    } else {
        switch (letter) {
        case 14: sim.Write(1, false, false); break;
        case 15: sim.Write(1, true, false); break;
        case 16: sim.Write(0, false, false); break;
        case 17: sim.Write(0, true, false); break;
        case 18: sim.Reset(); break;
        }
    }
    sim.clock++; // spends/reads also advance the clock so that coin variants and moveout usage vary with the position
}

void SmallScope(verif::Src& s, verif::Stats& st, int maxlen)
{
    // start state 0 (everything empty): all sequences of `maxlen` letters; start states 1..3 (already `>= 3` ops deep): all sequences of maxlen-1 letters
    uint64_t full = 1;
    for (int i = 0; i < maxlen; ++i) full *= SS_ALPHA;
    const uint64_t shorter = full / SS_ALPHA;
    const uint64_t total = full + (SS_PREFIXES - 1) * shorter;
    verif::set_enum_total(total);
    int64_t idx = verif::enum_index();
    if (idx < 0) idx = int64_t(s.range<uint64_t>(0, total - 1));
    if (uint64_t(idx) >= total) return;
    int prefix = 0, len = maxlen;
    uint64_t rest = uint64_t(idx);
    if (rest >= full) { rest -= full; prefix = 1 + int(rest / shorter); rest %= shorter; len = maxlen - 1; }
    try {
        Sim sim(st, 2, (idx & 1) ? 32 : (16 << 20)); // odd indices: 32-byte DB batches (every coin its own partial batch)
        sim.Push();
        // prefixes: 0 empty; 1 A unspent in DB only; 2 A in DB and cached clean in both layers; 3 A in DB, spent (dirty) in L0
        static const std::vector<std::vector<int>> PRE{{}, {0, 14, 16}, {0, 14, 16, 3}, {0, 14, 16, 2, 14}};
        for (int l : PRE[prefix]) { SsApply(sim, l); sim.CheckAll(); }
        st.note("prefix", prefix);
        st.mix(uint64_t(prefix));
        for (int i = 0; i < len; ++i) {
            int letter = int(rest % SS_ALPHA);
            rest /= SS_ALPHA;
            SsApply(sim, letter);
            sim.CheckAll();
            st.mix(uint64_t(letter));
            st.note(SS_NAMES[letter]);
        }
        sim.Write(1, false, false); sim.CheckAll();
        sim.Write(0, false, false); sim.CheckAll();
        st.nontrivial = sim.cross_flush_rewrite;
        if (sim.cross_flush_rewrite) st.cls("rewrite-after-carry-down");
        if (sim.full_pattern) st.cls("spend-after-flush-then-readd");
        st.cls("prefix=" + std::to_string(prefix));
    } catch (const std::logic_error& e) {
        verif::fail("c15.logic-error", std::string("cache threw logic_error although all documented preconditions were respected: ") + e.what());
    }
}

} // namespace

VERIF_TARGET(c15_smallscope, init, 8, 8,
             "EXHAUSTIVE: all 19^4 sequences (from the empty state; 19^3 from each of 3 deeper start states) over the alphabet {add, add(overwrite), spend, get, uncache, get@L0, uncache@L0} x {A,B} + {flush,sync} x {L1,L0} + reset, "
             "2 cache layers over an in-memory DB; start states: empty / A in DB / A in DB and cached / A spent-dirty in L0; model + accounting checked after "
             "every op. non-trivial = an outpoint was written, carried to a lower layer by flush/sync, and written again")
{
    SmallScope(s, st, 4);
}

VERIF_TARGET(c15_smallscope5, init, 8, 8,
             "EXHAUSTIVE (thorough tier): as c15_smallscope with all 19^5 sequences from the empty state and 19^4 from each deeper start state")
{
    SmallScope(s, st, 5);
}
