// C12 (metamorphic / model part, no Python) -- volume tier next to the refscript differential (py/c12_script.py).
//
// c12_encoding   generated script S (pushes from a boundary pool, any opcode, loose IF/ELSE/ENDIF), evaluated with EvalScript under a
//                generated flag set WITHOUT MINIMALDATA (and without CONST_SCRIPTCODE, which makes the verdict depend on the byte
//                pattern of a push) and a checker for which every signature / lock-time check fails:
//     c12.push-encoding   every push re-encoded (OP_N <-> 1-byte push, direct <-> PUSHDATA1/2/4): same success flag, same final stack
//     c12.nop-prefix      k OP_NOPs in front (k <= 50, S has <= 40 counted opcodes and <= 3 CHECKMULTISIGs, so the 201 limit is
//                         out of reach for both): same success flag, same final stack
//     c12.split           a push-only run A2 moved across the scriptSig/scriptPubKey boundary: VerifyScript(A1, A2+B) ==
//                         VerifyScript(A1+A2, B) == (EvalScript(A1+A2+B) succeeded with a true top element); no P2SH/WITNESS/CLEANSTACK
//                         flags (the relation is about plain concatenation; A1, A2 are push-only so SIGPUSHONLY is neutral)
// c12_numeric    operands a, b, c (boundary-biased, also 5-byte and non-minimally encoded) and one numeric opcode:
//     c12.numeric         EvalScript result == exact arithmetic on __int128 with an own script-number decoder/encoder written from the
//                         definition (little-endian sign-magnitude, operands at most 4 bytes, minimal encoding iff MINIMALDATA)
// c12_stackops   a sequence of stack-manipulation opcodes on a stack of distinct elements:
//     c12.stack-model     EvalScript's verdict and final stack == a std::vector model of the opcode table (lock-step, per prefix)
#include <engine/verif.h>

#include <script/interpreter.h>
#include <script/script.h>
#include <script/script_error.h>
#include <util/strencodings.h>

#include <algorithm>
#include <cstdint>
#include <optional>
#include <string>
#include <vector>

namespace {

using Bytes = std::vector<unsigned char>;
using Stack = std::vector<Bytes>;

const BaseSignatureChecker g_checker;   // every signature / lock-time check fails

const script_verify_flags kFlagList[] = {
    SCRIPT_VERIFY_P2SH, SCRIPT_VERIFY_STRICTENC, SCRIPT_VERIFY_DERSIG, SCRIPT_VERIFY_LOW_S, SCRIPT_VERIFY_NULLDUMMY, SCRIPT_VERIFY_SIGPUSHONLY,
    SCRIPT_VERIFY_DISCOURAGE_UPGRADABLE_NOPS, SCRIPT_VERIFY_CHECKLOCKTIMEVERIFY, SCRIPT_VERIFY_CHECKSEQUENCEVERIFY, SCRIPT_VERIFY_MINIMALIF,
    SCRIPT_VERIFY_NULLFAIL, SCRIPT_VERIFY_WITNESS_PUBKEYTYPE, SCRIPT_VERIFY_TAPROOT, SCRIPT_VERIFY_DISCOURAGE_OP_SUCCESS,
};

script_verify_flags GenFlags(verif::Src& s)
{
    script_verify_flags f = SCRIPT_VERIFY_NONE;
    uint32_t bits = s.ConsumeIntegral<uint16_t>();
    for (size_t i = 0; i < std::size(kFlagList); ++i) {
        if ((bits >> i) & 1) f |= kFlagList[i];
    }
    return f;
}

// ------------------------------------------------------------------------------------------------ own raw script writer
void RawPush(Bytes& out, const Bytes& d, int enc)
{
    // enc 0: canonical (OP_0 / OP_N / OP_1NEGATE / shortest length prefix); 1: shortest length prefix, never OP_N;
    // 2: PUSHDATA1 (if it fits); 3: PUSHDATA2; 4: PUSHDATA4
    const size_t n = d.size();
    if (enc == 0) {
        if (n == 0) { out.push_back(0x00); return; }
        if (n == 1 && d[0] >= 1 && d[0] <= 16) { out.push_back(0x50 + d[0]); return; }
        if (n == 1 && d[0] == 0x81) { out.push_back(0x4f); return; }
        enc = 1;
    }
    if (enc == 1 && n <= 75) {
        out.push_back(static_cast<unsigned char>(n));
    } else if ((enc == 1 || enc == 2) && n <= 255) {
        out.push_back(0x4c);
        out.push_back(static_cast<unsigned char>(n));
    } else if (enc != 4 && n <= 65535) {
        out.push_back(0x4d);
        out.push_back(static_cast<unsigned char>(n & 0xff));
        out.push_back(static_cast<unsigned char>(n >> 8));
    } else {
        out.push_back(0x4e);
        for (int i = 0; i < 4; ++i) out.push_back(static_cast<unsigned char>((n >> (8 * i)) & 0xff));
    }
    out.insert(out.end(), d.begin(), d.end());
}

struct Elem {
    bool is_push;
    Bytes data;
    int enc;
    unsigned char op;
};

Bytes Serialize(const std::vector<Elem>& es, bool alt_encoding, verif::Src* s)
{
    Bytes out;
    for (const Elem& e : es) {
        if (!e.is_push) { out.push_back(e.op); continue; }
        int enc = e.enc;
        if (alt_encoding) {
            // a different encoding of the same data (cycle through the five forms starting after the current one)
            int shift = 1 + (s ? s->range<int>(0, 3) : 0);
            enc = (e.enc + shift) % 5;
            Bytes a, b;
            RawPush(a, e.data, e.enc);
            RawPush(b, e.data, enc);
            if (a == b) enc = (enc + 1) % 5;
        }
        RawPush(out, e.data, enc);
    }
    return out;
}

Bytes GenData(verif::Src& s)
{
    static const std::vector<Bytes> pool = {
        {}, {0x80}, {0x00}, {0x01}, {0x02}, {0x10}, {0x11}, {0x81}, {0x7f}, {0xff}, {0x00, 0x80}, {0x01, 0x00}, {0xff, 0xff, 0xff, 0x7f},
        {0xff, 0xff, 0xff, 0xff}, {0x00, 0x00, 0x00, 0x80}, {0x00, 0x00, 0x00, 0x80, 0x00}, {0x00, 0x00, 0x00, 0x00}, {0x03}, {0x04}, {0x14}, {0x15},
    };
    switch (s.range<int>(0, 7)) {
    case 0:
    case 1:
    case 2: return s.pick(pool);
    case 3: return Bytes{static_cast<unsigned char>(s.range<int>(0, 20))};
    case 4: {
        size_t n = s.pick<size_t>({75, 76, 255, 256, 520, 521});
        return Bytes(n, static_cast<unsigned char>(s.range<int>(0, 255)));
    }
    case 5: return s.bytes(s.range<size_t>(0, 5));
    case 6: return s.bytes(s.range<size_t>(0, 40));
    default: return Bytes{static_cast<unsigned char>(s.range<int>(0, 255))};
    }
}

struct GenScript {
    std::vector<Elem> elems;
    int counted_ops{0}, multisigs{0}, big_pushes{0};
};

GenScript GenElems(verif::Src& s, verif::Stats& st, int max_elems)
{
    static const std::vector<unsigned char> common = {
        0x61, 0x63, 0x64, 0x67, 0x68, 0x69, 0x6b, 0x6c, 0x6d, 0x6e, 0x6f, 0x70, 0x71, 0x72, 0x73, 0x74, 0x75, 0x76, 0x77, 0x78, 0x79, 0x7a, 0x7b, 0x7c, 0x7d,
        0x82, 0x87, 0x88, 0x8b, 0x8c, 0x8f, 0x90, 0x91, 0x92, 0x93, 0x94, 0x9a, 0x9b, 0x9c, 0x9d, 0x9e, 0x9f, 0xa0, 0xa1, 0xa2, 0xa3, 0xa4, 0xa5, 0xa6, 0xa7,
        0xa8, 0xa9, 0xaa, 0xab, 0xac, 0xad, 0xae, 0xaf, 0xb0, 0xb1, 0xb2, 0xb3, 0xb9,
    };
    GenScript g;
    const int n = s.range<int>(0, max_elems);
    for (int i = 0; i < n; ++i) {
        const int k = s.range<int>(0, 9);
        if (k <= 4) {
            Elem e{true, GenData(s), s.range<int>(0, 4), 0};
            if (e.data.size() > 100) {
                if (++g.big_pushes > 4) e.data.resize(3);
            }
            g.elems.push_back(std::move(e));
        } else {
            unsigned char op = k <= 8 ? s.pick(common) : static_cast<unsigned char>(s.range<int>(0x4f, 0xff));
            if (op == 0xae || op == 0xaf) {
                if (++g.multisigs > 3) op = 0x61;
            }
            if (op > 0x60) g.counted_ops++;
            g.elems.push_back(Elem{false, {}, 0, op});
            st.mix(uint64_t(op));
        }
    }
    return g;
}

struct Outcome {
    bool ok;
    ScriptError err;
    Stack stack;
};

Outcome Run(const Bytes& script, const Stack& init, script_verify_flags flags, SigVersion sv)
{
    Outcome o;
    o.stack = init;
    o.err = SCRIPT_ERR_UNKNOWN_ERROR;
    o.ok = EvalScript(o.stack, CScript(script.begin(), script.end()), flags, g_checker, sv, &o.err);
    return o;
}

std::string StackHex(const Stack& st)
{
    std::string r = "[";
    for (size_t i = 0; i < st.size(); ++i) r += (i ? " " : "") + (st[i].size() > 40 ? HexStr(std::span{st[i]}.first(40)) + ".." : HexStr(st[i]));
    return r + "]";
}

bool CastBool(const Bytes& v)
{
    for (size_t i = 0; i < v.size(); ++i) {
        if (v[i] != 0) return !(i == v.size() - 1 && v[i] == 0x80);
    }
    return false;
}

} // namespace

VERIF_TARGET(c12_encoding, nullptr, 16, 220,
             "generated script (boundary pushes in 5 encodings, all opcodes, loose conditionals) under generated flags without MINIMALDATA: "
             "push re-encoding, OP_NOP prefixing and moving a push-only run across the scriptSig/scriptPubKey boundary leave verdict and stack "
             "unchanged; non-trivial = the base script executes successfully past >= 3 opcodes or fails after >= 3 elements; distinct = opcode sequence")
{
    const script_verify_flags flags = GenFlags(s);
    const SigVersion sv = s.chance(64) ? SigVersion::WITNESS_V0 : SigVersion::BASE;
    Stack init;
    for (int i = s.range<int>(0, 4); i > 0; --i) init.push_back(GenData(s));
    for (auto& e : init) {
        if (e.size() > 100) e.resize(2);
    }
    GenScript g = GenElems(s, st, 40);
    const Bytes base = Serialize(g.elems, false, nullptr);
    const Outcome o = Run(base, init, flags, sv);
    st.note(HexStr(base).substr(0, 300), " -> ", o.ok ? "ok" : ScriptErrorString(o.err), " stack ", o.stack.size());
    st.cls(o.ok ? "base-ok" : "base-fail");

    // (1) push re-encoding
    {
        const Bytes alt = Serialize(g.elems, true, &s);
        const Outcome a = Run(alt, init, flags, sv);
        st.steps++;
        VCHECK(a.ok == o.ok, "c12.push-encoding", "verdict changed by re-encoding pushes", HexStr(base), "->", o.ok ? "ok" : ScriptErrorString(o.err), "vs",
               HexStr(alt), "->", a.ok ? "ok" : ScriptErrorString(a.err), "flags", flags.as_int());
        if (o.ok) {
            st.steps++;
            VCHECK(a.stack == o.stack, "c12.push-encoding", "stack changed by re-encoding pushes", HexStr(base), StackHex(o.stack), "vs", HexStr(alt),
                   StackHex(a.stack));
        }
        if (alt != base) st.cls("re-encoded");
    }
    // (2) OP_NOP prefix
    {
        const int k = s.range<int>(1, 50);
        Bytes pre(k, 0x61);
        pre.insert(pre.end(), base.begin(), base.end());
        const Outcome a = Run(pre, init, flags, sv);
        st.steps++;
        VCHECK(a.ok == o.ok && (!o.ok || a.stack == o.stack), "c12.nop-prefix", "k", k, HexStr(base), "->", o.ok ? "ok" : ScriptErrorString(o.err),
               StackHex(o.stack), "with prefix ->", a.ok ? "ok" : ScriptErrorString(a.err), StackHex(a.stack), "flags", flags.as_int());
    }
    // (3) moving a push-only run across the scriptSig / scriptPubKey boundary
    {
        std::vector<Elem> a1, a2;
        for (int i = s.range<int>(0, 3); i > 0; --i) a1.push_back(Elem{true, GenData(s), s.range<int>(0, 4), 0});
        for (int i = s.range<int>(0, 3); i > 0; --i) a2.push_back(Elem{true, GenData(s), s.range<int>(0, 4), 0});
        for (auto* v : {&a1, &a2}) {
            for (auto& e : *v) {
                if (e.data.size() > 100) e.data.resize(2);
            }
        }
        const Bytes A1 = Serialize(a1, false, nullptr), A2 = Serialize(a2, false, nullptr);
        script_verify_flags vf = flags & ~(script_verify_flags{SCRIPT_VERIFY_P2SH} | SCRIPT_VERIFY_TAPROOT);
        if (s.boolean()) vf |= SCRIPT_VERIFY_MINIMALDATA;   // applies to both sides alike
        auto cat = [](const Bytes& x, const Bytes& y) { Bytes r = x; r.insert(r.end(), y.begin(), y.end()); return r; };
        auto cs = [](const Bytes& b) { return CScript(b.begin(), b.end()); };
        ScriptError e1, e2, e3;
        const bool v1 = VerifyScript(cs(A1), cs(cat(A2, base)), nullptr, vf, g_checker, &e1);
        const bool v2 = VerifyScript(cs(cat(A1, A2)), cs(base), nullptr, vf, g_checker, &e2);
        Stack stck;
        // SIGPUSHONLY is a VerifyScript-level rule about the scriptSig (push-only on both sides here)
        bool v3 = EvalScript(stck, cs(cat(cat(A1, A2), base)), vf, g_checker, SigVersion::BASE, &e3);
        v3 = v3 && !stck.empty() && CastBool(stck.back());
        st.steps += 2;
        VCHECK(v1 == v2, "c12.split", "VerifyScript depends on where a push-only run is placed", HexStr(A1), "|", HexStr(A2), "|", HexStr(base), v1, v2,
               ScriptErrorString(e1), "/", ScriptErrorString(e2), "flags", vf.as_int());
        VCHECK(v1 == v3, "c12.split", "VerifyScript(A, B) != EvalScript(A+B) with a true result", HexStr(A1), "|", HexStr(A2), "|", HexStr(base), v1, v3,
               ScriptErrorString(e1), "/", ScriptErrorString(e3), "flags", vf.as_int());
        if (v1) st.cls("split-valid");
    }
    st.nontrivial = g.elems.size() >= 3 && (o.ok || o.err != SCRIPT_ERR_BAD_OPCODE);
    st.mix(uint64_t(o.ok) + 2 * uint64_t(sv == SigVersion::WITNESS_V0));
}

// ------------------------------------------------------------------------------------------------ numeric opcodes
namespace {

/** script number from its definition: little-endian magnitude, top bit of the last byte = sign. nullopt: not a valid operand. */
std::optional<__int128> RefDecode(const Bytes& v, bool require_minimal, size_t max_size = 4)
{
    if (v.size() > max_size) return std::nullopt;
    if (require_minimal && !v.empty()) {
        if ((v.back() & 0x7f) == 0) {
            if (v.size() == 1 || (v[v.size() - 2] & 0x80) == 0) return std::nullopt;
        }
    }
    __int128 mag = 0;
    for (size_t i = 0; i < v.size(); ++i) {
        unsigned char b = v[i];
        if (i + 1 == v.size()) b &= 0x7f;
        mag |= static_cast<__int128>(b) << (8 * i);
    }
    if (!v.empty() && (v.back() & 0x80)) return -mag;
    return mag;
}

Bytes RefEncode(__int128 n)
{
    Bytes out;
    if (n == 0) return out;
    const bool neg = n < 0;
    __int128 a = neg ? -n : n;
    while (a) {
        out.push_back(static_cast<unsigned char>(a & 0xff));
        a >>= 8;
    }
    if (out.back() & 0x80) out.push_back(neg ? 0x80 : 0x00);
    else if (neg) out.back() |= 0x80;
    return out;
}

Bytes GenOperand(verif::Src& s, bool& padded)
{
    static const int64_t bnd[] = {0, 1, -1, 2, 16, 17, 127, 128, 129, 255, 256, 32767, 32768, 65535, 65536, 8388607, 8388608, 2147483647LL, 2147483648LL,
                                  -2147483647LL, -2147483648LL, 4294967295LL, 4294967296LL, -127, -128, -129, -32768, 549755813887LL};
    int64_t v;
    switch (s.range<int>(0, 3)) {
    case 0: v = s.range<int64_t>(-3, 20); break;
    case 1:
    case 2: v = bnd[s.index(std::size(bnd))] + s.range<int>(-1, 1); break;
    default: v = s.ConsumeIntegral<int32_t>(); break;
    }
    Bytes b = RefEncode(v);
    padded = false;
    if (s.chance(40)) {
        // non-minimal encodings of the same value: move the sign bit to an appended byte, or negative zero
        padded = true;
        if (b.empty()) { b = s.boolean() ? Bytes{0x00} : Bytes{0x80}; }
        else {
            const bool neg = b.back() & 0x80;
            b.back() &= 0x7f;
            b.push_back(neg ? 0x80 : 0x00);
        }
    }
    return b;
}

} // namespace

VERIF_TARGET(c12_numeric, nullptr, 12, 48,
             "one numeric opcode on generated operands (boundary-biased around every byte-length change, 5-byte values, non-minimal encodings, "
             "negative zero) with/without MINIMALDATA: verdict and result equal exact __int128 arithmetic with an own number codec; "
             "non-trivial = an operand is within 1 of a 2^(8k-1) boundary, or padded, or oversized; distinct = opcode x operand lengths x verdict")
{
    static const unsigned char ops[] = {0x8b, 0x8c, 0x8f, 0x90, 0x91, 0x92, 0x93, 0x94, 0x9a, 0x9b, 0x9c, 0x9d, 0x9e, 0x9f, 0xa0, 0xa1, 0xa2, 0xa3, 0xa4, 0xa5};
    const unsigned char op = ops[s.index(std::size(ops))];
    const int arity = op <= 0x92 ? 1 : (op == 0xa5 ? 3 : 2);
    const bool minimal = s.boolean();
    const SigVersion sv = s.chance(64) ? SigVersion::WITNESS_V0 : SigVersion::BASE;
    Stack init;
    bool any_padded = false;
    std::vector<std::optional<__int128>> vals;
    for (int i = 0; i < arity; ++i) {
        bool padded;
        init.push_back(GenOperand(s, padded));
        any_padded |= padded;
        vals.push_back(RefDecode(init.back(), minimal));
    }
    // the operands sit on the stack (so that MINIMALDATA only judges the number decoding); one extra element below them
    Stack stack{Bytes{0x42}};
    stack.insert(stack.end(), init.begin(), init.end());
    const script_verify_flags flags = minimal ? script_verify_flags{SCRIPT_VERIFY_MINIMALDATA} : SCRIPT_VERIFY_NONE;
    ScriptError err = SCRIPT_ERR_UNKNOWN_ERROR;
    Stack out = stack;
    const bool ok = EvalScript(out, CScript() << static_cast<opcodetype>(op), flags, g_checker, sv, &err);

    bool want_ok = true;
    for (auto& v : vals) want_ok = want_ok && v.has_value();
    std::optional<Bytes> want_top;
    bool pushes = true;
    if (want_ok) {
        const __int128 a = *vals[0], b = arity >= 2 ? *vals[1] : 0, c = arity >= 3 ? *vals[2] : 0;
        __int128 r = 0;
        switch (op) {
        case 0x8b: r = a + 1; break;
        case 0x8c: r = a - 1; break;
        case 0x8f: r = -a; break;
        case 0x90: r = a < 0 ? -a : a; break;
        case 0x91: r = a == 0; break;
        case 0x92: r = a != 0; break;
        case 0x93: r = a + b; break;
        case 0x94: r = a - b; break;
        case 0x9a: r = (a != 0 && b != 0); break;
        case 0x9b: r = (a != 0 || b != 0); break;
        case 0x9c: r = a == b; break;
        case 0x9d: r = a == b; pushes = false; want_ok = (a == b); break;   // NUMEQUALVERIFY
        case 0x9e: r = a != b; break;
        case 0x9f: r = a < b; break;
        case 0xa0: r = a > b; break;
        case 0xa1: r = a <= b; break;
        case 0xa2: r = a >= b; break;
        case 0xa3: r = a < b ? a : b; break;
        case 0xa4: r = a > b ? a : b; break;
        case 0xa5: r = (b <= a && a < c); break;                            // x min max WITHIN
        }
        if (pushes) want_top = RefEncode(r);
    }
    st.steps++;
    VCHECK(ok == want_ok, "c12.numeric", "verdict", "op", int(op), "operands", StackHex(init), "minimal", minimal, "got", ok ? "ok" : ScriptErrorString(err), "want",
           want_ok);
    if (want_ok) {
        Stack expect{Bytes{0x42}};
        if (want_top) expect.push_back(*want_top);
        st.steps++;
        VCHECK(out == expect, "c12.numeric", "result", "op", int(op), "operands", StackHex(init), "minimal", minimal, "got", StackHex(out), "want", StackHex(expect));
    }
    bool boundary = any_padded;
    for (auto& e : init) boundary |= e.size() >= 4;
    st.nontrivial = boundary;
    st.cls(want_ok ? "valid" : "invalid-operand");
    if (any_padded) st.cls("padded");
    uint64_t shape = op;
    for (auto& e : init) shape = shape * 8 + e.size();
    st.mix(shape * 4 + want_ok * 2 + minimal);
    st.note("op ", int(op), " ", StackHex(init), minimal ? " MINIMALDATA" : "", " -> ", ok ? StackHex(out) : ScriptErrorString(err));
}

// ------------------------------------------------------------------------------------------------ stack manipulation model
namespace {

/** Model of the stack-manipulation part of the opcode table; returns false where the table says the script fails. */
bool ModelStep(unsigned char op, int64_t arg, Stack& st, Stack& alt)
{
    auto need = [&](size_t n) { return st.size() >= n; };
    auto top = [&](size_t i) -> Bytes& { return st[st.size() - i]; };   // 1 = top
    switch (op) {
    case 0x6b: if (!need(1)) return false; alt.push_back(top(1)); st.pop_back(); return true;
    case 0x6c: if (alt.empty()) return false; st.push_back(alt.back()); alt.pop_back(); return true;
    case 0x6d: if (!need(2)) return false; st.pop_back(); st.pop_back(); return true;
    case 0x6e: { if (!need(2)) return false; Bytes a = top(2), b = top(1); st.push_back(a); st.push_back(b); return true; }
    case 0x6f: { if (!need(3)) return false; Bytes a = top(3), b = top(2), c = top(1); st.push_back(a); st.push_back(b); st.push_back(c); return true; }
    case 0x70: { if (!need(4)) return false; Bytes a = top(4), b = top(3); st.push_back(a); st.push_back(b); return true; }
    case 0x71: { if (!need(6)) return false; Bytes a = top(6), b = top(5); st.erase(st.end() - 6, st.end() - 4); st.push_back(a); st.push_back(b); return true; }
    case 0x72: { if (!need(4)) return false; std::swap(top(4), top(2)); std::swap(top(3), top(1)); return true; }
    case 0x73: { if (!need(1)) return false; if (CastBool(top(1))) { Bytes a = top(1); st.push_back(a); } return true; }
    case 0x74: st.push_back(RefEncode(static_cast<__int128>(st.size()))); return true;
    case 0x75: if (!need(1)) return false; st.pop_back(); return true;
    case 0x76: { if (!need(1)) return false; Bytes a = top(1); st.push_back(a); return true; }
    case 0x77: if (!need(2)) return false; st.erase(st.end() - 2); return true;
    case 0x78: { if (!need(2)) return false; Bytes a = top(2); st.push_back(a); return true; }
    case 0x79:
    case 0x7a: {
        // <n> PICK / ROLL: the count is pushed by the generator as part of the step (arg)
        if (!need(1)) return false;                  // (the interpreter requires 2 elements including the count)
        if (arg < 0 || static_cast<size_t>(arg) >= st.size()) return false;
        Bytes v = st[st.size() - 1 - static_cast<size_t>(arg)];
        if (op == 0x7a) st.erase(st.end() - 1 - arg);
        st.push_back(v);
        return true;
    }
    case 0x7b: { if (!need(3)) return false; Bytes a = top(3); st.erase(st.end() - 3); st.push_back(a); return true; }
    case 0x7c: if (!need(2)) return false; std::swap(top(2), top(1)); return true;
    case 0x7d: { if (!need(2)) return false; Bytes b = top(1); st.insert(st.end() - 2, b); return true; }
    case 0x82: { if (!need(1)) return false; st.push_back(RefEncode(static_cast<__int128>(top(1).size()))); return true; }
    default: return false;
    }
}

} // namespace

VERIF_TARGET(c12_stackops, nullptr, 12, 120,
             "sequence of stack-manipulation opcodes (TOALTSTACK..TUCK, SIZE, DEPTH, IFDUP, <n> PICK/ROLL with n around the depth) on a stack of "
             "distinct elements vs a std::vector model, compared after every prefix length; non-trivial = >= 4 steps executed incl. PICK/ROLL or "
             "a 2-/3-element opcode; distinct = opcode sequence")
{
    static const unsigned char ops[] = {0x6b, 0x6c, 0x6d, 0x6e, 0x6f, 0x70, 0x71, 0x72, 0x73, 0x74, 0x75, 0x76, 0x77, 0x78, 0x79, 0x7a, 0x7b, 0x7c, 0x7d, 0x82, 0x79, 0x7a};
    Stack model;
    const int n0 = s.range<int>(0, 7);
    for (int i = 0; i < n0; ++i) {
        // distinct, recognisable elements (some false ones for IFDUP)
        Bytes e{static_cast<unsigned char>(0xa0 + i), static_cast<unsigned char>(i)};
        if (s.chance(30)) e = s.boolean() ? Bytes{} : Bytes{0x00, 0x80};
        model.push_back(e);
    }
    const Stack init = model;
    Stack alt;
    Bytes script;
    const int nsteps = s.range<int>(1, 30);
    bool model_ok = true;
    int executed = 0;
    bool interesting = false;
    for (int i = 0; i < nsteps && model_ok; ++i) {
        unsigned char op = ops[s.index(std::size(ops))];
        // mostly applicable opcodes (so that sequences get long); the inapplicable ones are the failure cases
        auto need_of = [](unsigned char o) -> size_t {
            switch (o) {
            case 0x74: case 0x6c: return 0;
            case 0x6b: case 0x73: case 0x75: case 0x76: case 0x82: case 0x79: case 0x7a: return 1;
            case 0x6d: case 0x6e: case 0x77: case 0x78: case 0x7c: case 0x7d: return 2;
            case 0x6f: case 0x7b: return 3;
            case 0x70: case 0x72: return 4;
            default: return 6;
            }
        };
        for (int tries = 0; tries < 3 && (need_of(op) > model.size() || (op == 0x6c && alt.empty())) && !s.chance(24); ++tries) {
            op = ops[s.index(std::size(ops))];
        }
        int64_t arg = 0;
        if (op == 0x79 || op == 0x7a) {
            // counts around the current depth: depth-1 (bottom element) is the largest valid one
            const int64_t depth = static_cast<int64_t>(model.size());
            arg = s.chance(128) ? depth - 1 + s.range<int>(-1, 1) : s.range<int64_t>(-1, depth + 1);
            RawPush(script, RefEncode(arg), 0);
            interesting = true;
        }
        if (op == 0x6f || op == 0x70 || op == 0x71 || op == 0x72 || op == 0x7b || op == 0x7d) interesting = true;
        script.push_back(op);
        st.mix(uint64_t(op) * 64 + uint64_t(arg & 63));
        model_ok = ModelStep(op, arg, model, alt);
        if (model_ok) executed++;
        // lock-step comparison on this prefix
        Stack got = init;
        ScriptError err = SCRIPT_ERR_UNKNOWN_ERROR;
        const bool ok = EvalScript(got, CScript(script.begin(), script.end()), SCRIPT_VERIFY_NONE, g_checker, SigVersion::BASE, &err);
        st.steps++;
        VCHECK(ok == model_ok, "c12.stack-model", "verdict after step", i, "op", int(op), "arg", arg, "script", HexStr(script), "initial", StackHex(init), "cpp",
               ok ? "ok" : ScriptErrorString(err), "model", model_ok);
        if (ok) {
            st.steps++;
            VCHECK(got == model, "c12.stack-model", "stack after step", i, "op", int(op), "arg", arg, "script", HexStr(script), "initial", StackHex(init), "cpp",
                   StackHex(got), "model", StackHex(model));
        }
    }
    st.note(HexStr(script), " on ", StackHex(init), model_ok ? " ok" : " fails");
    st.cls(model_ok ? "all-steps-ok" : "ends-in-failure");
    st.nontrivial = executed >= 4 && interesting;
}
