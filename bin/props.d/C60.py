# C60: stage list (what ./check C60 quick|thorough runs) and manifest text. Helpers gen()/enum()/hyp()/custom() come from props.py.
SPEC = {'level': 'exploration',
 'assumptions': ['own bit-level CIDR reference (first L bits equal, same family) replaces the Python ipaddress cross-check of the design; IPv4-mapped IPv6 bytes are the '
                 'IPv4 address (documented conversion)', 'only valid addresses can match (documented in CSubNet::Match); address validity itself is taken from IsValid()',
                 'fc00::/8 strings are IPv6 unless CJDNS is marked reachable (documented -cjdnsreachable behaviour); the harness sets the reachability per case',
                 'BanMan: bans of valid subnets only; discouragement checked one-directionally (probabilistic filter, < 50000 insertions)',
                 'mock time; ban file on tmpfs'],
 'stages': [gen('vh_c60', 'c60_subnet', 100000, 2000000, min_cases_quick=15000,
                floors={'ipv4': 0.3, 'ipv6': 0.25, 'form-maskaddr': 0.1, 'form-string-len': 0.1, 'form-string-mask': 0.1, 'form-single-host': 0.08,
                        'rejected-noncontiguous-mask': 0.03, 'rejected-length': 0.005, 'mapped-as-ipv4': 0.02, 'nonip-tor': 0.01, 'nonip-i2p': 0.01, 'nonip-cjdns': 0.01},
                rule='subnets in five construction forms vs own CIDR reference with boundary probes; non-trivial = probes on both sides of the prefix boundary or a rejected form or non-IP'),
            enum('vh_c60', 'c60_prefix_table', rule='exhaustive prefix length x flipped bit x base address (53190 cases)'),
            gen('vh_c60', 'c60_netaddr_rt', 100000, 2000000, min_cases_quick=15000,
                floors={'ipv4': 0.2, 'ipv6': 0.2, 'torv3': 0.08, 'i2p': 0.08, 'cjdns': 0.08},
                rule='v1/v2 serialization and string round trips of every network; all non-trivial'),
            gen('vh_c60', 'c60_banman', 2000, 40000, min_cases_quick=300,
                floors={'ban-subnet': 0.5, 'ban-address': 0.4, 'expiry-crossed': 0.3, 'unban-listed': 0.2, 'op-getbanned': 0.2, 'op-restart': 0.1, 'subnet-ban-covers-address': 0.4},
                rule='ban histories vs reference list; non-trivial = subnet ban covering a probe address + expiry crossed + unban'),
            gen('vh_c60', 'up_netaddress', 3000, 60000, rule='upstream CNetAddr target (supplementary)'),
            gen('vh_c60', 'up_banman', 150, 3000, rule='upstream BanMan target (supplementary)'),
            gen('vh_c60', 'up_netbase_dns_lookup', 2000, 40000, rule='upstream lookup target (supplementary)'),
        # coverage-guided libFuzzer campaign on the same target (thorough tier only; fz tree = g++ trace-pc + covshim)
        fuzz('vh_c60', 'c60_subnet', 300, max_len=96),
        gen('vh_c60', 'c60_subnet_internal_prefix', 0, 0, tiers=(), rule='replay-only: known finding (IPv6 subnet whose network base lies in the internal-address prefix does not round-trip through its string)'),
    ]}

META = {'level_text': 'Generated IPv4/IPv6 subnets in all construction forms (prefix length, netmask address, both string forms, single host) with boundary-biased addresses '
               'are compared with an own bit-level CIDR reference on probe addresses at bits L-1, L, last, other family and mapped twins, plus an exhaustive '
               'prefix-length x flipped-bit table; Tor/I2P/CJDNS single-host subnets; print->parse fixpoints; v1/BIP155 encodings against own encoders and round trips '
               'for every network; ban/unban/expiry/sweep/restart histories against a reference ban list with mock time. Exploration.',
 'technique': 'property-based testing: independent reference model (CIDR matching, BIP155 encoder, ban list), round-trip oracles, exhaustive table for the prefix boundary',
 'level_note': 'Trusted base: raw-byte constructors CNetAddr(in_addr/in6_addr) and the BIP155 decoder used to build inputs (the latter is itself round-trip checked).'}
