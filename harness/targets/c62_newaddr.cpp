// C62 — The wallet never hands out the same new address twice.
//
//   c62_newaddr  : in-process histories on an on-disk SQLite descriptor wallet (clean unload/reload clauses)
//   c62_workload : the same interpreter on a wallet with the production durability (synchronous=FULL), run under the E3 recorder
//                  (bin/crashsim/c62_worker.py); prints `MARK addr <address>` only AFTER the call that returned the address
//   c62_recover  : recovery oracle for one crash image: load it, ask for new addresses of every kind, none may equal an address
//                  that was returned (marked) before the cut
//
// Oracle (statement only, independent of the wallet's bookkeeping): the multiset of returned addresses has no duplicates;
// and, with the harness' own expansion of the wallet's descriptor strings, the first addresses a descriptor hands out after a
// restart have an index greater than every index it handed out before the restart (nothing is outstanding across a restart).
#include <engine/verif.h>
#include <kits/walletsim.h>
#include <targets/c43_walletlib.h>

#include <util/time.h>
#include <util/translation.h>
#include <wallet/crypter.h>

#include <chrono>
#include <fstream>
#include <iostream>

using namespace verif;
using namespace wl;

namespace {

constexpr int64_t GENESIS_TIME = 1296688602;
// a second account of the harness tprv with a HARDENED range: new keys need the private key, so a locked wallet really runs dry
const char* const HARD_TPRV = "tprv8ZgxMBicQKsPd1QwsGgzfu2pcPYbBosZhJknqreRHgsWx32nNEhMjGQX2cgFL8n6wz9xdDYwLcs78N4nsCo32cxEX8RBtwGsEGgybLiQJfk";
std::string HardDesc(bool internal) { return std::string("wpkh(") + HARD_TPRV + "/62h/" + (internal ? "1" : "0") + "h/*h)"; }
const SecureString PASS{"c62 passphrase"};

struct History {
    Src& s;
    Stats& st;
    const bool crash_mode; //!< production durability + MARK lines

    std::set<std::string> returned;            //!< every address handed out, all sessions
    std::map<uint256, int> max_idx;            //!< per descriptor: highest index handed out
    std::map<uint256, int> floor_idx;          //!< per descriptor: highest index handed out before the last restart
    DescModel model;
    int n_addr{0}, n_reload{0}, n_after_reload{0}, n_exhausted{0}, n_refilled{0}, n_returned_reservations{0}, n_skips{0};
    bool encrypted{false}, locked{false}, hard{false};
    bool exhausted_pending{false};

    History(Src& s_, Stats& st_, bool crash) : s(s_), st(st_), crash_mode(crash) {}

    void Record(WalletSim& ws, const CTxDestination& dest, const char* how)
    {
        const std::string a = EncodeDestination(dest);
        Mark("addr " + a);
        st.steps++;
        VCHECK(!returned.count(a), "c62.duplicate-address", "address", a, "was handed out before (", how, ") after", n_addr, "addresses and", n_reload, "restarts");
        returned.insert(a);
        ++n_addr;
        if (n_reload) ++n_after_reload;
        model.Refresh(ws.wallet());
        auto info = model.Lookup(GetScriptForDestination(dest));
        if (info) {
            auto fit = floor_idx.find(info->first);
            st.steps++;
            VCHECK(fit == floor_idx.end() || info->second > fit->second, "c62.index-not-advanced-after-restart", "address", a, "index", info->second,
                   "but the descriptor had already handed out index", fit == floor_idx.end() ? -1 : fit->second, "before the restart");
            int& m = max_idx.emplace(info->first, -1).first->second;
            m = std::max(m, info->second);
            st.note(how, " -> #", info->second);
        } else {
            st.cls("address-outside-model"); // e.g. hardened range beyond what the harness expanded: only the duplicate check applies
            st.note(how, " -> ", a.substr(0, 12));
        }
    }

    void Run()
    {
        SetMockTime(GENESIS_TIME + 3600);
        const auto T0 = std::chrono::steady_clock::now();
        auto lap = [&](const char* what) { if (getenv("VH_W_TIMING")) std::cerr << "TIMING " << what << " " << std::chrono::duration<double>(std::chrono::steady_clock::now() - T0).count() << "\n"; };
        ChainSimOpts o;
        o.immediate_signals = false;
        std::vector<std::string> keep;
        if (crash_mode) {
            keep.push_back("-testdatadir=" + Env("VH_W_ROOT"));
            o.extra_args.push_back(keep.back().c_str());
        }
        ChainSim sim(o);
        LoadWalletBase(sim, 8);
        lap("chain");

        WalletSimOpts wo;
        wo.on_disk = true;
        wo.unsafe_sync = !crash_mode;
        wo.generated_seed = s.chance(64);
        wo.keypool = s.pick<int>({3, 1, 2, 5, 8});
        wo.rescan = false;
        const unsigned scenario = s.range<unsigned>(0, 3); // 0,1 plain | 2 encrypted | 3 encrypted + hardened active descriptors (keypool can run dry)
        unsigned nops = s.range<unsigned>(4, crash_mode ? 18 : 40);
        st.mix(uint64_t(wo.generated_seed)); st.mix(uint64_t(wo.keypool)); st.mix(uint64_t(scenario));
        st.note(wo.generated_seed ? "generated-seed" : "fixed-descriptors", " keypool=", wo.keypool, " scenario=", scenario);

        WalletSim ws(sim, wo);
        // CWallet::CreateNew gives every new wallet this flag (descriptor caches are complete from birth); WalletSim builds the wallet by hand
        ws.wallet().SetWalletFlag(wallet::WALLET_FLAG_LAST_HARDENED_XPUB_CACHED);
        if (!wo.generated_seed) for (auto& d : WalletSimFixedDescriptors()) model.AddString(d, /*persistent=*/true);
        model.Refresh(ws.wallet());
        Mark("begin");
        lap("wallet-created");

        auto do_encrypt = [&] {
            Mark("op encrypt");
            bool ok = ws.wallet().EncryptWallet(PASS);
            VCHECK(ok, "c62.harness", "EncryptWallet failed");
            encrypted = true; locked = true;
            Mark("op-end encrypt");
            model.Refresh(ws.wallet());
            st.note("encrypt");
        };
        auto do_unlock = [&] {
            if (!encrypted || !locked) return;
            bool ok = ws.wallet().Unlock(PASS);
            VCHECK(ok, "c62.harness", "Unlock with the right passphrase failed");
            locked = false;
            st.note("unlock");
        };
        auto import_hard = [&] {
            if (hard || wo.generated_seed || (encrypted && locked)) return;
            for (bool internal : {false, true}) {
                const std::string d = HardDesc(internal);
                model.AddString(d, /*persistent=*/true);
                std::string err;
                auto id = ImportDescriptor(ws.wallet(), d, /*active=*/true, internal, /*range_end=*/1, "", &err);
                VCHECK(id.has_value(), "c62.harness", "import failed", err);
            }
            hard = true;
            st.note("import-hardened(wpkh)");
        };
        if (scenario >= 2) { do_encrypt(); }
        if (scenario == 3 && !wo.generated_seed) { do_unlock(); import_hard(); ws.wallet().Lock(); locked = true; st.note("lock"); }

        lap("scenario-set-up");
        std::vector<std::unique_ptr<wallet::ReserveDestination>> reservations;
        auto drop_reservations = [&] {
            for (auto& r : reservations) { r->ReturnDestination(); ++n_returned_reservations; }
            reservations.clear();
        };
        for (unsigned op = 0; op < nops && !s.exhausted(); ++op) {
            unsigned kind = s.range<unsigned>(0, 15);
            OutputType type = hard && s.chance(128) ? OutputType::BECH32 : ALL_TYPES[s.index(4)];
            if (hard && locked && s.chance(100)) { kind = 15; type = OutputType::BECH32; } // drain the hardened range of the locked wallet
            st.mix(uint64_t(kind));
            if (kind <= 4 || kind == 5) {
                const bool internal = kind == 5 || (kind == 4 && s.boolean());
                auto r = internal ? ws.wallet().GetNewChangeDestination(type) : ws.wallet().GetNewDestination(type, "");
                if (r) {
                    if (exhausted_pending) { ++n_refilled; exhausted_pending = false; }
                    Record(ws, *r, internal ? "change" : "receive");
                } else {
                    // the statement does not promise availability: a dry keypool (locked wallet, hardened range) is a legal answer
                    ++n_exhausted; exhausted_pending = true;
                    st.note("no-address(", util::ErrorString(r).original.substr(0, 24), ")");
                }
            } else if (kind == 6) {
                unsigned n = s.pick<unsigned>({0, 1, 2, 6, 20});
                Mark("op topup");
                ws.wallet().TopUpKeyPool(n);
                Mark("op-end topup");
                st.note("topup(", n, ")");
            } else if (kind == 7 || kind == 8) {
                // what CreateTransaction does with its change address: reserve, then keep (transaction made) or return (failed)
                if (reservations.size() >= 2) {
                    size_t i = s.index(reservations.size());
                    if (kind == 7) { reservations[i]->ReturnDestination(); ++n_returned_reservations; st.note("reservation-returned"); }
                    reservations.erase(reservations.begin() + i);
                    continue;
                }
                auto rd = std::make_unique<wallet::ReserveDestination>(&ws.wallet(), type);
                const bool internal = s.boolean();
                util::Result<CTxDestination> r = WITH_LOCK(ws.wallet().cs_wallet, return rd->GetReservedDestination(internal));
                if (!r) { ++n_exhausted; exhausted_pending = true; st.note("reserve: none"); continue; }
                if (kind == 8 && s.boolean()) {
                    rd->KeepDestination();
                    Record(ws, *r, "reserved+kept");
                } else {
                    st.note("reserve");
                    reservations.push_back(std::move(rd)); // decided by a later op (or returned before the next restart)
                }
            } else if (kind == 9 && !crash_mode) {
                // a payment to a look-ahead address: the wallet marks everything up to it as used and tops up
                const bool internal = s.boolean();
                auto* spkm = ws.wallet().GetScriptPubKeyMan(type, internal);
                if (!spkm) continue;
                const uint256 id = spkm->GetID();
                model.Refresh(ws.wallet());
                auto bit = model.by_id.find(id);
                auto mit = max_idx.find(bit != model.by_id.end() ? bit->second->id : id); // max_idx is keyed by the id of the expanded string
                const int target = (mit == max_idx.end() ? 0 : mit->second + 1) + s.range<int>(0, wo.keypool);
                const CScript* spk = model.ScriptAt(id, target);
                if (!spk) continue;
                BlockSpec spec;
                spec.prev = sim.TipHash();
                spec.coinbase_spk = *spk;
                auto d = ws.Deliver(sim.Build(spec));
                VCHECK(d.processed, "c62.harness", "block rejected");
                ++n_skips;
                st.note("payment-to-lookahead #", target);
            } else if (kind == 10 || kind == 11) {
                drop_reservations();
                if (s.chance(96)) ws.opts.keypool = s.pick<int>({3, 1, 2, 5, 8});
                Mark("op reload");
                std::string err;
                bool ok = ws.Reload(&err);
                VCHECK(ok, "c62.reload-fails", err);
                Mark("op-end reload");
                ++n_reload;
                floor_idx = max_idx;
                if (encrypted) locked = true;
                model.Refresh(ws.wallet());
                st.note("RELOAD(keypool=", ws.opts.keypool, ")");
            } else if (kind == 12) {
                if (!encrypted) { if (s.chance(64)) { drop_reservations(); do_encrypt(); } }
                else if (locked) do_unlock();
                else { ws.wallet().Lock(); locked = true; st.note("lock"); }
            } else if (kind == 13) {
                if (s.chance(64)) import_hard();
            } else {
                // burst: several addresses of one kind in a row (drains a small keypool)
                const bool internal = s.boolean();
                unsigned n = s.range<unsigned>(1, 6);
                for (unsigned i = 0; i < n; ++i) {
                    auto r = internal ? ws.wallet().GetNewChangeDestination(type) : ws.wallet().GetNewDestination(type, "");
                    if (!r) { ++n_exhausted; exhausted_pending = true; st.note("no-address"); break; }
                    if (exhausted_pending) { ++n_refilled; exhausted_pending = false; }
                    Record(ws, *r, internal ? "change" : "receive");
                }
            }
        }
        drop_reservations();
        Mark("end");
        lap("ops-done");
        if (n_reload) st.cls("restart");
        if (n_after_reload) st.cls("address-after-restart");
        if (encrypted) st.cls("encrypted");
        if (hard) st.cls("hardened-range");
        if (n_exhausted) st.cls("keypool-exhausted");
        if (n_refilled) st.cls("refilled-after-exhaustion");
        if (n_returned_reservations) st.cls("reservation-returned");
        if (n_skips) st.cls("payment-to-lookahead");
        st.mix(uint64_t(n_reload)); st.mix(uint64_t(std::min(n_addr, 12))); st.mix(uint64_t(n_exhausted > 0));
        st.nontrivial = n_reload >= 1 && n_after_reload >= 2 && n_addr >= 4;
    }
};

} // namespace

VERIF_TARGET(c62_newaddr, nullptr, 24, 420,
             "histories (4-40 ops) on an on-disk SQLite descriptor wallet (fixed harness descriptors or a generated seed, keypool 1-8; scenarios: plain, "
             "encrypted, encrypted + active HARDENED-range descriptors so that a locked wallet runs dry): new receive/change address of every output type, "
             "bursts, TopUpKeyPool(n), reserve + keep/return (CreateTransaction's change handling, up to 2 outstanding), payment to a look-ahead "
             "address (used-marking + top-up), lock/unlock, encrypt, import of hardened descriptors, clean unload/reload with another keypool size. "
             "Oracle: no address is ever returned twice; after a restart a descriptor's new indices exceed every index it returned before. "
             "non-trivial = >=1 restart, >=2 addresses after it, >=4 addresses in total; distinct = op-kind sequence + wallet configuration")
{
    History h(s, st, /*crash=*/false);
    h.Run();
}

VERIF_TARGET(c62_workload, nullptr, 24, 200,
             "crash workload (run under the E3 recorder): the c62_newaddr interpreter on a wallet with production durability (synchronous=FULL), 4-18 ops, "
             "MARK addr lines after each returned address; judged by c62_recover on every crash image")
{
    History h(s, st, /*crash=*/true);
    h.Run();
    st.steps++;
}

VERIF_TARGET(c62_recover, nullptr, 0, 8,
             "recovery oracle for one crash image of a c62 workload: the wallet is loaded from the image (unlocked with the workload's passphrase if it is "
             "encrypted), then hands out new receive and change addresses of every type, tops up, reloads once more; none of them may equal an address "
             "whose MARK was printed before the cut, and none may repeat")
{
    SetMockTime(GENESIS_TIME + 7200);
    ChainSimOpts o;
    o.immediate_signals = false;
    ChainSim sim(o);
    LoadWalletBase(sim, 8);
    std::set<std::string> before;
    {
        std::ifstream f(Env("VH_W_ADDRS"));
        std::string l;
        while (std::getline(f, l)) if (!l.empty()) before.insert(l);
    }
    bool ok = false;
    std::string err;
    auto ws = LoadImage(sim, Env("VH_W_IMAGE"), /*keypool=*/3, &ok, &err);
    if (!ok) {
        // whether every crash image loads is C43's clause; C62 only speaks about addresses a loadable wallet hands out
        std::cout << "IMAGE-UNLOADABLE " << err << std::endl;
        st.note("image does not load: ", err);
        return;
    }
    wallet::CWallet& w = ws->wallet();
    if (w.HasEncryptionKeys()) {
        VCHECK(w.Unlock(PASS), "c62.harness", "crash image is encrypted but the workload's passphrase does not unlock it");
        st.note("unlocked");
    }
    std::set<std::string> fresh;
    int n = 0;
    auto take = [&](int rounds) {
        for (int round = 0; round < rounds; ++round) {
            for (OutputType t : ALL_TYPES) {
                for (bool internal : {false, true}) {
                    auto r = internal ? w.GetNewChangeDestination(t) : w.GetNewDestination(t, "");
                    if (!r) continue;
                    const std::string a = EncodeDestination(*r);
                    st.steps++;
                    VCHECK(!before.count(a), "c62.crash-duplicate-address", "after the crash the wallet handed out", a, TypeName(t), internal ? "change" : "receive",
                           "which it had already returned before the cut");
                    VCHECK(fresh.insert(a).second, "c62.duplicate-address", "address", a, "handed out twice after recovery");
                    ++n;
                }
            }
        }
    };
    take(2);
    w.TopUpKeyPool(4);
    take(1);
    st.note("recovered: ", before.size(), " addresses before the cut, ", n, " new ones");
    st.nontrivial = !before.empty() && n > 0;
    std::cout << "RECOVERED before=" << before.size() << " new=" << n << std::endl;
}
