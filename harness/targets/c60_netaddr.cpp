// C60 — Addresses, subnets and bans are matched exactly.
//
// c60_subnet       : CSubNet built four ways (address + prefix length, address + netmask address, "addr/len" string, "addr/mask"
//                    string) and as single host; Match() on probe addresses placed at the prefix boundary is compared with an own
//                    bit-level CIDR reference on the raw bytes (first L bits equal, same family; RFC 4632 / RFC 4291); validity
//                    (prefix length range, contiguous mask) against the reference; ToString() -> LookupSubNet() fixpoint; Tor / I2P /
//                    CJDNS single-host subnets match exactly the equal address.
// c60_prefix_table : exhaustive: every prefix length x every flipped bit position (IPv4 33x33, IPv6 129x129) x 3 base addresses.
// c60_netaddr_rt   : IPv4/IPv6 through the 16-byte (v1) and BIP155 (v2) encodings, Tor v3/I2P/CJDNS through BIP155, for CNetAddr,
//                    CService and CAddress: value -> bytes -> value equality and bytes == own encoding written from the BIP155 /
//                    protocol documentation; ToString -> parse fixpoint for addresses and address:port strings.
// c60_banman       : ban / unban / clear / time-jump / sweep (GetBanned) / restart histories against a reference ban list (own
//                    subnet matching, expiry now < until); discouraged addresses stay discouraged (one-directional: the filter is
//                    probabilistic, absence is not asserted).
// Left out: comparison with Python's ipaddress module (the bit-level reference covers the same definition), scoped IPv6 addresses
// (zone ids), legacy Tor v2, DNS names, CIDR forms the libc resolver accepts beyond dotted-quad / full hextets.
#include <engine/verif.h>
#include <kits/netgen.h>

#include <banman.h>
#include <chainparams.h>
#include <netaddress.h>
#include <netbase.h>
#include <net_types.h>
#include <protocol.h>
#include <streams.h>
#include <util/chaintype.h>
#include <util/fs.h>
#include <util/time.h>

#include <unistd.h>

#include <array>
#include <cstdio>
#include <cstdlib>
#include <cstring>
#include <map>
#include <memory>
#include <optional>
#include <string>
#include <vector>

namespace {
using namespace verif::netgen;
using Bytes = std::vector<uint8_t>;

// ------------------------------------------------------------------ reference (own, from the RFC definitions)
int ref_bit(const Bytes& a, int i) { return (a[i / 8] >> (7 - i % 8)) & 1; }
/** CIDR: address belongs to net/L iff the first L bits are equal */
bool ref_prefix_match(const Bytes& a, const Bytes& net, int L)
{
    if (a.size() != net.size()) return false;
    for (int i = 0; i < L; ++i) if (ref_bit(a, i) != ref_bit(net, i)) return false;
    return true;
}
/** netmask is valid iff it is 1^L 0^(n-L); returns L or -1 */
int ref_mask_len(const Bytes& m)
{
    int n = int(m.size()) * 8, L = 0;
    while (L < n && ref_bit(m, L)) ++L;
    for (int i = L; i < n; ++i) if (ref_bit(m, i)) return -1;
    return L;
}
Bytes ref_mask(int nbytes, int L)
{
    Bytes m(nbytes, 0);
    for (int i = 0; i < L; ++i) m[i / 8] |= uint8_t(0x80 >> (i % 8));
    return m;
}
bool is_mapped(const Bytes& v6) { static const uint8_t P[12] = {0, 0, 0, 0, 0, 0, 0, 0, 0, 0, 0xff, 0xff}; return v6.size() == 16 && memcmp(v6.data(), P, 12) == 0; }
bool is_internal_prefix(const Bytes& v6) { static const uint8_t P[6] = {0xfd, 0x6b, 0x88, 0xc0, 0x87, 0x24}; return v6.size() == 16 && memcmp(v6.data(), P, 6) == 0; }
/** fd87:d87e:eb43::/48 (OnionCat, Tor v2 in IPv6): CNetAddr::SetLegacyIPv6 deliberately turns such bytes into the invalid all-zero
 *  address ("TORv2-in-IPv6 (unsupported)"), so they are not IPv6 addresses as far as the code under test is concerned */
bool is_onioncat_prefix(const Bytes& v6) { static const uint8_t P[6] = {0xfd, 0x87, 0xd8, 0x7e, 0xeb, 0x43}; return v6.size() == 16 && memcmp(v6.data(), P, 6) == 0; }

std::string fmt_v4(const Bytes& b) { char s[32]; snprintf(s, sizeof s, "%u.%u.%u.%u", b[0], b[1], b[2], b[3]); return s; }
/** full (uncompressed) hextet form; every resolver accepts it */
std::string fmt_v6_full(const Bytes& b)
{
    std::string s;
    char t[8];
    for (int i = 0; i < 8; ++i) { snprintf(t, sizeof t, "%x", (b[2 * i] << 8) | b[2 * i + 1]); if (i) s += ":"; s += t; }
    return s;
}
std::string fmt_ip(const Bytes& b) { return b.size() == 4 ? fmt_v4(b) : fmt_v6_full(b); }

CNetAddr make_ip(const Bytes& b)
{
    if (b.size() == 4) return ipv4(b[0], b[1], b[2], b[3]);
    std::array<uint8_t, 16> a;
    memcpy(a.data(), b.data(), 16);
    return ipv6(a);
}

/** the address family + bytes the value really has after construction (documented: ::ffff:a.b.c.d is the IPv4 address a.b.c.d) */
struct Fam { int fam; Bytes bytes; }; // fam 4 / 6
Fam effective(const Bytes& raw)
{
    if (raw.size() == 16 && is_mapped(raw)) return {4, Bytes(raw.begin() + 12, raw.end())};
    return {raw.size() == 4 ? 4 : 6, raw};
}

Bytes gen_ip_bytes(verif::Src& s, int fam)
{
    size_t n = fam == 4 ? 4 : 16;
    Bytes b(n, 0);
    switch (s.range<unsigned>(0, 7)) {
    case 0: break;                                             // all zeros
    case 1: std::fill(b.begin(), b.end(), 0xff); break;        // all ones
    case 2: b[s.index(n)] = uint8_t(1u << s.index(8)); break; // single bit
    case 3: std::fill(b.begin(), b.end(), 0xff); b[s.index(n)] ^= uint8_t(1u << s.index(8)); break;
    case 4: if (fam == 6) { static const uint8_t pre[][4] = {{0x20, 0x01, 0x0d, 0xb8}, {0x20, 0x02, 0, 0}, {0x20, 0x01, 0, 0}, {0x00, 0x64, 0xff, 0x9b}, {0xfe, 0x80, 0, 0}, {0xfc, 0x00, 0, 0}, {0xfd, 0x6b, 0x88, 0xc0}};
                             memcpy(b.data(), pre[s.index(7)], 4); auto r = s.bytes(12); r.resize(12); memcpy(b.data() + 4, r.data(), 12); }
            else { static const uint8_t pre[][2] = {{10, 0}, {192, 168}, {169, 254}, {127, 0}, {100, 64}, {198, 18}, {224, 0}, {250, 1}}; memcpy(b.data(), pre[s.index(8)], 2); b[2] = s.range<uint8_t>(0, 255); b[3] = s.range<uint8_t>(0, 255); }
            break;
    case 5: if (fam == 6) { b[10] = b[11] = 0xff; auto r = s.bytes(4); r.resize(4); memcpy(b.data() + 12, r.data(), 4); break; } // IPv4-mapped
            [[fallthrough]];
    default: { auto r = s.bytes(n); r.resize(n); b = r; }
    }
    if (is_internal_prefix(b)) b[5] ^= 1; // fd6b:88c0:8724::/48 is the "internal" name space, not an IP address
    if (is_onioncat_prefix(b)) b[5] ^= 1; // fd87:d87e:eb43::/48 is parsed as the invalid all-zero address (unsupported Tor v2 embedding)
    return b;
}

void init_c60()
{
    SelectParams(ChainType::REGTEST);
}

const char* fam_name(int f) { return f == 4 ? "ipv4" : "ipv6"; }

/** probe one address against a subnet with reference parameters (net_fam, net_bytes, L) */
void probe(const CSubNet& sn, bool sn_valid, int net_fam, const Bytes& net_bytes, int L, const Bytes& raw, verif::Stats& st, const char* what)
{
    CNetAddr a = make_ip(raw);
    Fam e = effective(raw);
    bool same_family = (e.fam == net_fam) && (a.IsIPv4() || a.IsIPv6());
    bool expect = sn_valid && a.IsValid() && same_family && ref_prefix_match(e.bytes, net_bytes, L);
    bool got = sn.Match(a);
    st.steps++;
    if (expect) st.cls("probe-match"); else st.cls("probe-nomatch");
    if (!a.IsValid()) st.cls("probe-invalid-address");
    if (e.fam != net_fam) st.cls("probe-other-family");
    st.note(what, " ", fmt_ip(raw), got ? " in" : " !in");
    VCHECK(got == expect, "c60.subnet-match", what, "subnet", sn.ToString(), "(ref", fam_name(net_fam), fmt_ip(net_bytes), "/", L, ") address", fmt_ip(raw), "impl", got, "ref", expect);
}

void flip(Bytes& b, int bit) { b[bit / 8] ^= uint8_t(0x80 >> (bit % 8)); }

} // namespace

static bool g_c60_assert_internal_prefix = false; // set by the replay-only target below

VERIF_TARGET(c60_subnet, init_c60, 8, 96,
             "IPv4/IPv6 subnets built from (address, prefix length), (address, netmask address), 'addr/len' and 'addr/mask' strings or as single host, with "
             "boundary addresses (all-0, all-1, single bits, mapped/embedded prefixes), lengths 0..32/128 and beyond, contiguous and broken masks; probes at "
             "bits L-1, L, last, other family, mapped twin; Tor/I2P/CJDNS single-host subnets; non-trivial = valid subnet with 0 < L < max and probes on both "
             "sides of the boundary, or a rejected mask/length, or a non-IP subnet; distinct = family, form, L, probe outcomes")
{
    g_reachable_nets.Reset();
    unsigned kind = s.range<unsigned>(0, 9);
    if (kind == 9) {
        // ---- non-IP single-host subnets
        unsigned net = s.range<unsigned>(0, 2); // tor, i2p, cjdns
        if (net == 2) g_reachable_nets.Add(NET_CJDNS);
        uint64_t seed = s.ConsumeIntegral<uint32_t>();
        auto mk = [&](unsigned n, const Bytes& payload) { return from_bip155(n == 0 ? BIP155_TORV3 : n == 1 ? BIP155_I2P : BIP155_CJDNS, payload); };
        Bytes p = expand(seed, net == 2 ? 16 : 32);
        if (net == 2) p[0] = 0xfc;
        CNetAddr a = mk(net, p);
        CSubNet sn(a);
        st.steps++;
        VCHECK(a.IsValid() && sn.IsValid(), "c60.subnet-valid", "single-host subnet of a valid non-IP address is invalid");
        VCHECK(sn.Match(a), "c60.subnet-match", "non-IP subnet does not match its own address", sn.ToString());
        Bytes q = p;
        flip(q, 8 + int(s.index(q.size() * 8 - 8)));
        CNetAddr b = mk(net, q);
        VCHECK(!sn.Match(b), "c60.subnet-match", "non-IP subnet matches a different address", sn.ToString(), b.ToStringAddr());
        if (net < 2) { CNetAddr c = mk(1 - net, p); VCHECK(!sn.Match(c), "c60.subnet-match", "non-IP subnet matches same bytes of another network"); }
        Bytes v6 = Bytes(p.begin(), p.begin() + 16);
        VCHECK(!sn.Match(make_ip(v6)), "c60.subnet-match", "non-IP subnet matches an IPv6 address");
        std::string str = sn.ToString();
        CSubNet back = LookupSubNet(str);
        VCHECK(back.IsValid() && back == sn && back.ToString() == str, "c60.tostring-fixpoint", "non-IP subnet string does not parse back:", str);
        st.cls(net == 0 ? "nonip-tor" : net == 1 ? "nonip-i2p" : "nonip-cjdns");
        st.mix(uint64_t(100 + net));
        st.note("non-IP subnet ", str);
        st.nontrivial = true;
        g_reachable_nets.Reset();
        return;
    }
    g_reachable_nets.Remove(NET_CJDNS); // fc00::/8 strings are plain IPv6 here (documented: only flipped to CJDNS when -cjdnsreachable)
    int fam = s.boolean() ? 6 : 4;
    Bytes raw = gen_ip_bytes(s, fam);
    Fam e = effective(raw);
    int nbits = e.fam == 4 ? 32 : 128;
    unsigned form = s.range<unsigned>(0, 4);
    // prefix length: mostly in range with boundary bias, sometimes beyond
    int L;
    switch (s.range<unsigned>(0, 5)) {
    case 0: L = s.pick<int>({0, 1, 7, 8, 9, 31, 32, 33, 63, 64, 65, 127, 128, 129, 255}); break;
    case 1: L = nbits - int(s.index(3)); break;
    default: L = int(s.index(size_t(nbits) + 1));
    }
    if (L > nbits && form != 0 && form != 2) L = nbits;
    bool broken_mask = false;
    Bytes mask;
    if (form == 1 || form == 3) {
        mask = ref_mask(int(e.bytes.size()), L);
        if (s.chance(70)) { // break the mask: set a bit behind the prefix or clear one inside
            int bit = int(s.index(size_t(nbits)));
            flip(mask, bit);
            broken_mask = ref_mask_len(mask) < 0;
            if (!broken_mask) L = ref_mask_len(mask);
        }
    }
    CNetAddr addr = make_ip(raw);
    CSubNet sn;
    std::string built;
    bool ref_valid;
    switch (form) {
    case 0: sn = CSubNet(addr, uint8_t(L)); ref_valid = L <= nbits; built = "ctor(addr," + std::to_string(L) + ")"; break;
    case 1: {
        // the mask address must itself be an address of the same family (an IPv4-mapped mask would be an IPv4 address)
        CNetAddr m = make_ip(mask);
        bool mask_same_family = (e.fam == 4) ? m.IsIPv4() : m.IsIPv6();
        sn = CSubNet(addr, m);
        ref_valid = !broken_mask && mask_same_family;
        if (!mask_same_family) st.cls("mask-changes-family");
        built = "ctor(addr,mask " + fmt_ip(mask) + ")";
        break;
    }
    case 2: built = fmt_ip(raw) + "/" + std::to_string(L); sn = LookupSubNet(built); ref_valid = L <= nbits; break;
    case 3: {
        CNetAddr m = make_ip(mask);
        bool mask_same_family = (e.fam == 4) ? m.IsIPv4() : m.IsIPv6();
        built = fmt_ip(raw) + "/" + fmt_ip(mask);
        sn = LookupSubNet(built);
        ref_valid = !broken_mask && mask_same_family;
        if (!mask_same_family) st.cls("mask-changes-family");
        break;
    }
    default: L = nbits; if (s.boolean()) { sn = CSubNet(addr); built = "ctor(addr)"; } else { built = fmt_ip(raw); sn = LookupSubNet(built); } ref_valid = true; break;
    }
    st.steps++;
    st.note(fam_name(e.fam), " ", built, " -> ", sn.IsValid() ? sn.ToString() : "invalid");
    VCHECK(sn.IsValid() == ref_valid, "c60.subnet-valid", built, "impl valid", sn.IsValid(), "ref valid", ref_valid, "L", L, "broken_mask", broken_mask);
    static const char* const FORM[5] = {"form-prefixlen", "form-maskaddr", "form-string-len", "form-string-mask", "form-single-host"};
    st.cls(FORM[form]);
    st.cls(e.fam == 4 ? "ipv4" : "ipv6");
    if (raw.size() == 16 && e.fam == 4) st.cls("mapped-as-ipv4");
    if (!ref_valid) st.cls(broken_mask ? "rejected-noncontiguous-mask" : "rejected-length");
    st.mix(uint64_t(e.fam)); st.mix(form); st.mix(uint64_t(L)); st.mix(uint64_t(ref_valid));

    // probes
    unsigned match_n = 0, nomatch_n = 0;
    auto do_probe = [&](const Bytes& b, const char* what) {
        // a bit flip may land inside a prefix that is not an IP address for the code under test (precondition of the reference)
        if (is_internal_prefix(b) || is_onioncat_prefix(b)) { st.cls("probe-skipped:special-prefix"); return; }
        probe(sn, ref_valid, e.fam, e.bytes, std::min(L, nbits), b, st, what);
        CNetAddr a = make_ip(b);
        Fam pe = effective(b);
        if (ref_valid && a.IsValid() && pe.fam == e.fam && ref_prefix_match(pe.bytes, e.bytes, std::min(L, nbits))) match_n++; else nomatch_n++;
    };
    do_probe(e.bytes, "self");
    if (L > 0 && L <= nbits) { Bytes b = e.bytes; flip(b, L - 1); do_probe(b, "flip-last-prefix-bit"); }
    if (L < nbits) { Bytes b = e.bytes; flip(b, L); do_probe(b, "flip-first-host-bit"); }
    { Bytes b = e.bytes; flip(b, nbits - 1); do_probe(b, "flip-last-bit"); }
    { Bytes b = e.bytes; flip(b, int(s.index(size_t(nbits)))); do_probe(b, "flip-random-bit"); }
    { Bytes b = gen_ip_bytes(s, e.fam); do_probe(b, "other-address"); }
    { Bytes b(e.bytes.size(), 0); do_probe(b, "all-zero"); }
    { Bytes b = gen_ip_bytes(s, e.fam == 4 ? 6 : 4); do_probe(b, "other-family"); }
    if (e.fam == 4) { Bytes b(16, 0); b[10] = b[11] = 0xff; memcpy(b.data() + 12, e.bytes.data(), 4); do_probe(b, "mapped-twin"); if (L < 32) { flip(b, 96 + L); do_probe(b, "mapped-twin-flip-host-bit"); } }
    if (e.fam == 6) { Bytes b(e.bytes.begin() + 12, e.bytes.end()); do_probe(b, "low-32-bits-as-ipv4"); }

    // ToString -> parse fixpoint
    // Known finding (known_findings.txt, oracle c60.tostring-internal-prefix): an IPv6 subnet whose masked network base
    // falls into fd6b:88c0:8724::/48 -- the prefix CNetAddr reserves for "internal" addresses -- prints as a string that
    // parses back as an internal address, i.e. to an INVALID subnet. That shape is excluded here by construction (and
    // counted) so that the search continues behind it; the replay-only target c60_subnet_internal_prefix asserts it.
    bool internal_base = false;
    if (sn.IsValid() && e.fam == 6 && L < nbits) {
        static const uint8_t INTERNAL_PFX[6] = {0xfd, 0x6b, 0x88, 0xc0, 0x87, 0x24};
        Bytes base = e.bytes;
        for (int bit = L; bit < nbits; ++bit) base[bit / 8] &= uint8_t(~(0x80 >> (bit % 8)));
        internal_base = memcmp(base.data(), INTERNAL_PFX, 6) == 0;
        if (internal_base) st.cls("excluded:ipv6-base-in-internal-prefix");
    }
    if (sn.IsValid() && !(internal_base && !g_c60_assert_internal_prefix)) {
        std::string str = sn.ToString();
        CSubNet back = LookupSubNet(str);
        st.steps++;
        if (internal_base) VCHECK(back.IsValid() && back == sn, "c60.tostring-internal-prefix", "subnet string", str, "parses to", back.IsValid() ? back.ToString() : "invalid", "built from", built);
        VCHECK(back.IsValid() && back == sn, "c60.tostring-fixpoint", "subnet string", str, "parses to", back.IsValid() ? back.ToString() : "invalid", "built from", built);
        VCHECK(back.ToString() == str, "c60.tostring-fixpoint", "second print differs:", str, "vs", back.ToString());
        // the printed prefix length is the reference one
        VCHECK(str.size() > 2 && str.substr(str.find_last_of('/') + 1) == std::to_string(std::min(L, nbits)), "c60.tostring-fixpoint", "printed prefix length of", str, "is not", L);
    }
    st.mix(uint64_t(match_n) * 16 + nomatch_n);
    st.nontrivial = (ref_valid && L > 0 && L < nbits && match_n >= 2 && nomatch_n >= 2) || !ref_valid;
    g_reachable_nets.Reset();
}

// Replay-only (known finding): same case decoder as c60_subnet, but the fixpoint is also asserted for IPv6 subnets whose
// network base lies in the internal-address prefix fd6b:88c0:8724::/48.
VERIF_TARGET(c60_subnet_internal_prefix, init_c60, 8, 96,
             "replay-only: c60_subnet with the by-construction exclusion of 'IPv6 network base inside fd6b:88c0:8724::/48' switched off (known finding)")
{
    g_c60_assert_internal_prefix = true;
    c60_subnet_target(s, st);
    g_c60_assert_internal_prefix = false;
}

VERIF_TARGET(c60_prefix_table, init_c60, 0, 8,
             "exhaustive: family x base address (3) x prefix length (0..32 / 0..128) x flipped bit (none, 0..31 / 0..127): Match == first L bits equal; all cases "
             "with 0 < L non-trivial")
{
    const uint64_t N4 = 3ull * 33 * 33, N6 = 3ull * 129 * 129;
    verif::set_enum_total(N4 + N6);
    int64_t idx = verif::enum_index();
    if (idx < 0) idx = int64_t(s.range<uint64_t>(0, N4 + N6 - 1));
    g_reachable_nets.Reset();
    g_reachable_nets.Remove(NET_CJDNS);
    int fam = uint64_t(idx) < N4 ? 4 : 6;
    uint64_t i = fam == 4 ? uint64_t(idx) : uint64_t(idx) - N4;
    int nbits = fam == 4 ? 32 : 128;
    uint64_t per = uint64_t(nbits + 1);
    int flipbit = int(i % per) - 1; // -1 = none
    int L = int((i / per) % per);
    unsigned base = unsigned(i / per / per);
    static const uint8_t B4[3][4] = {{0xaa, 0x55, 0xc3, 0x3d}, {0xff, 0xff, 0xff, 0xfe}, {0x01, 0x00, 0x00, 0x01}};
    static const uint8_t B6[3][16] = {{0x2a, 0x01, 0x55, 0xaa, 0xc3, 0x3c, 0x0f, 0xf0, 0x12, 0x34, 0x56, 0x78, 0x9a, 0xbc, 0xde, 0xf1},
                                      {0xff, 0xfe, 0xff, 0xff, 0xff, 0xff, 0xff, 0xff, 0xff, 0xff, 0xff, 0xff, 0xff, 0xff, 0xff, 0xff},
                                      {0x20, 0x00, 0, 0, 0, 0, 0, 0, 0, 0, 0, 0, 0, 0, 0, 0x01}};
    Bytes net = fam == 4 ? Bytes(B4[base], B4[base] + 4) : Bytes(B6[base], B6[base] + 16);
    CSubNet sn(make_ip(net), uint8_t(L));
    VCHECK(sn.IsValid(), "c60.subnet-valid", "table subnet invalid", fmt_ip(net), L);
    Bytes a = net;
    if (flipbit >= 0) flip(a, flipbit);
    CNetAddr addr = make_ip(a);
    bool expect = addr.IsValid() && (fam == 4 ? addr.IsIPv4() : addr.IsIPv6()) && ref_prefix_match(a, net, L);
    st.steps++;
    VCHECK(sn.Match(addr) == expect, "c60.subnet-match", "table:", fmt_ip(net), "/", L, "address", fmt_ip(a), "impl", sn.Match(addr), "ref", expect);
    // string form agrees with the constructor form
    CSubNet parsed = LookupSubNet(fmt_ip(net) + "/" + std::to_string(L));
    VCHECK(parsed == sn, "c60.tostring-fixpoint", "string form differs from constructor form for", fmt_ip(net), L);
    st.cls(fam == 4 ? "table-ipv4" : "table-ipv6");
    st.cls(expect ? "table-match" : "table-nomatch");
    st.mix(uint64_t(idx));
    st.nontrivial = L > 0;
    g_reachable_nets.Reset();
}

// ================================================================================================ serialization round trips
namespace {
Bytes own_compact_size(uint64_t n)
{
    Bytes b;
    if (n < 253) b.push_back(uint8_t(n));
    else if (n <= 0xffff) { b.push_back(253); b.push_back(uint8_t(n)); b.push_back(uint8_t(n >> 8)); }
    else if (n <= 0xffffffffULL) { b.push_back(254); for (int i = 0; i < 4; ++i) b.push_back(uint8_t(n >> (8 * i))); }
    else { b.push_back(255); for (int i = 0; i < 8; ++i) b.push_back(uint8_t(n >> (8 * i))); }
    return b;
}
Bytes own_v1_addr(int kind, const Bytes& payload) // kind 0 ipv4, 1 ipv6
{
    if (kind == 1) return payload;
    Bytes b(16, 0);
    b[10] = b[11] = 0xff;
    memcpy(b.data() + 12, payload.data(), 4);
    return b;
}
Bytes own_v2_addr(int kind, const Bytes& payload)
{
    static const uint8_t ID[5] = {BIP155_IPV4, BIP155_IPV6, BIP155_TORV3, BIP155_I2P, BIP155_CJDNS};
    Bytes b{ID[kind]};
    auto cs = own_compact_size(payload.size());
    b.insert(b.end(), cs.begin(), cs.end());
    b.insert(b.end(), payload.begin(), payload.end());
    return b;
}
Bytes stream_bytes(const DataStream& ds) { Bytes b(ds.size()); if (!b.empty()) memcpy(b.data(), ds.data(), b.size()); return b; }
} // namespace

VERIF_TARGET(c60_netaddr_rt, init_c60, 8, 80,
             "addresses of all networks built from raw bytes (IPv4/IPv6 with boundary and embedded-prefix bias, Tor v3, I2P, CJDNS), ports and CAddress "
             "time/services; v1 (16-byte) and v2 (BIP155) encodings of CNetAddr/CService/CAddress: decode(encode(x)) == x and encode(x) == own encoding; "
             "string print -> parse fixpoint; all cases with a valid address non-trivial; distinct = network, prefix class, port/service class")
{
    g_reachable_nets.Reset();
    unsigned kind = s.pick<unsigned>({0, 1, 0, 1, 2, 3, 4}); // ipv4, ipv6, tor, i2p, cjdns
    Bytes payload;
    CNetAddr a;
    if (kind <= 1) {
        payload = gen_ip_bytes(s, kind == 0 ? 4 : 6);
        if (kind == 1 && is_mapped(payload)) { kind = 0; payload = Bytes(payload.begin() + 12, payload.end()); st.cls("mapped-as-ipv4"); }
        a = make_ip(payload);
        g_reachable_nets.Remove(NET_CJDNS);
    } else {
        payload = s.chance(128) ? expand(s.ConsumeIntegral<uint32_t>(), kind == 4 ? 16 : 32) : [&] { auto r = s.bytes(kind == 4 ? 16 : 32); r.resize(kind == 4 ? 16 : 32); return r; }();
        if (kind == 4) { payload[0] = 0xfc; g_reachable_nets.Add(NET_CJDNS); }
        a = from_bip155(kind == 2 ? BIP155_TORV3 : kind == 3 ? BIP155_I2P : BIP155_CJDNS, payload);
    }
    static const char* const KIND[5] = {"ipv4", "ipv6", "torv3", "i2p", "cjdns"};
    static const Network NETOF[5] = {NET_IPV4, NET_IPV6, NET_ONION, NET_I2P, NET_CJDNS};
    st.cls(KIND[kind]);
    st.mix(kind);
    st.steps++;
    VCHECK(a.GetNetwork() == NETOF[kind] || !a.IsRoutable() || a.IsInternal(), "c60.construct", "address built from", KIND[kind], "bytes reports network", int(a.GetNetwork()));
    uint16_t port = s.pick<uint16_t>({0, 1, 8333, 18444, 65535, 255, 256});
    if (s.chance(100)) port = s.ConsumeIntegral<uint16_t>();
    CService svc(a, port);
    Bytes port_be{uint8_t(port >> 8), uint8_t(port)};

    // ---- v2 (BIP155): every network
    {
        DataStream ds;
        ds << CNetAddr::V2(a);
        Bytes enc = stream_bytes(ds);
        Bytes own = own_v2_addr(int(kind), payload);
        st.steps++;
        VCHECK(enc == own, "c60.bip155-encoding", KIND[kind], "v2 encoding", verif::hex(enc), "expected", verif::hex(own));
        CNetAddr back;
        ds >> CNetAddr::V2(back);
        VCHECK(back == a && ds.empty(), "c60.v2-roundtrip", KIND[kind], "address does not survive the v2 encoding:", a.ToStringAddr(), "->", back.ToStringAddr());
        DataStream ds2;
        ds2 << CNetAddr::V2(svc);
        Bytes enc2 = stream_bytes(ds2);
        Bytes own2 = own;
        own2.insert(own2.end(), port_be.begin(), port_be.end());
        VCHECK(enc2 == own2, "c60.bip155-encoding", "service v2 encoding", verif::hex(enc2), "expected", verif::hex(own2));
        CService sback;
        ds2 >> CNetAddr::V2(sback);
        VCHECK(sback == svc && sback.GetPort() == port && ds2.empty(), "c60.v2-roundtrip", "service does not survive the v2 encoding", svc.ToStringAddrPort());
    }
    // ---- v1 (16 bytes): IPv4 and IPv6 only (statement); other networks cannot be expressed in v1
    if (kind <= 1) {
        DataStream ds;
        ds << CNetAddr::V1(a);
        Bytes enc = stream_bytes(ds);
        Bytes own = own_v1_addr(int(kind), payload);
        st.steps++;
        VCHECK(enc == own, "c60.v1-encoding", KIND[kind], "v1 encoding", verif::hex(enc), "expected", verif::hex(own));
        CNetAddr back;
        ds >> CNetAddr::V1(back);
        VCHECK(back == a && ds.empty(), "c60.v1-roundtrip", KIND[kind], "address does not survive the v1 encoding:", a.ToStringAddr(), "->", back.ToStringAddr());
        DataStream ds2;
        ds2 << CNetAddr::V1(svc);
        CService sback;
        ds2 >> CNetAddr::V1(sback);
        VCHECK(sback == svc && sback.GetPort() == port && ds2.empty(), "c60.v1-roundtrip", "service does not survive the v1 encoding", svc.ToStringAddrPort());
    } else {
        DataStream ds;
        ds << CNetAddr::V1(a); // must not crash; content unspecified by the statement
        VCHECK(ds.size() == 16, "c60.v1-encoding", "v1 encoding of a", KIND[kind], "address is not 16 bytes");
    }
    // ---- CAddress (time + services + service), network formats
    {
        CAddress ca(svc, ServiceFlags(s.pick<uint64_t>({0, 1, 1033, 252, 253, 0xffff, 0x10000, 0xffffffffULL, 0x100000000ULL, 0xffffffffffffffffULL})));
        uint32_t tm = s.pick<uint32_t>({0, 1, 100000000, 1700000000, 0x7fffffff, 0x80000000, 0xffffffff});
        ca.nTime = NodeSeconds{std::chrono::seconds{tm}};
        st.mix(uint64_t(ca.nServices));
        DataStream ds;
        ds << CAddress::V2_NETWORK(ca);
        // own encoding: time u32 LE, services CompactSize, addrv2, port BE
        Bytes own;
        for (int i = 0; i < 4; ++i) own.push_back(uint8_t(tm >> (8 * i)));
        auto cs = own_compact_size(uint64_t(ca.nServices));
        own.insert(own.end(), cs.begin(), cs.end());
        auto av2 = own_v2_addr(int(kind), payload);
        own.insert(own.end(), av2.begin(), av2.end());
        own.insert(own.end(), port_be.begin(), port_be.end());
        st.steps++;
        VCHECK(stream_bytes(ds) == own, "c60.bip155-encoding", "addrv2 entry encoding", verif::hex(stream_bytes(ds)), "expected", verif::hex(own));
        CAddress back;
        ds >> CAddress::V2_NETWORK(back);
        VCHECK(back == ca && back.nTime == ca.nTime && back.nServices == ca.nServices && ds.empty(), "c60.v2-roundtrip", "CAddress does not survive the addrv2 encoding");
        if (kind <= 1) {
            DataStream d1;
            d1 << CAddress::V1_NETWORK(ca);
            Bytes own1;
            for (int i = 0; i < 4; ++i) own1.push_back(uint8_t(tm >> (8 * i)));
            for (int i = 0; i < 8; ++i) own1.push_back(uint8_t(uint64_t(ca.nServices) >> (8 * i)));
            auto av1 = own_v1_addr(int(kind), payload);
            own1.insert(own1.end(), av1.begin(), av1.end());
            own1.insert(own1.end(), port_be.begin(), port_be.end());
            VCHECK(stream_bytes(d1) == own1, "c60.v1-encoding", "addr entry encoding", verif::hex(stream_bytes(d1)), "expected", verif::hex(own1));
            CAddress b1;
            d1 >> CAddress::V1_NETWORK(b1);
            VCHECK(b1 == ca && b1.nTime == ca.nTime && b1.nServices == ca.nServices && d1.empty(), "c60.v1-roundtrip", "CAddress does not survive the addr (v1) encoding");
        }
    }
    // ---- string print -> parse fixpoint (IP, Tor, I2P, CJDNS)
    {
        std::string str = a.ToStringAddr();
        std::optional<CNetAddr> parsed = LookupHost(str, /*fAllowLookup=*/false);
        if (parsed && kind == 4) parsed = CNetAddr(MaybeFlipIPv6toCJDNS(CService(*parsed, 0)));
        st.steps++;
        st.note(KIND[kind], " ", str, " port ", port);
        VCHECK(parsed.has_value() && *parsed == a, "c60.tostring-fixpoint", KIND[kind], "address string", str, "parses to", parsed ? parsed->ToStringAddr() : "nothing");
        VCHECK(parsed->ToStringAddr() == str, "c60.tostring-fixpoint", "second print differs", str, parsed->ToStringAddr());
        std::string sp = svc.ToStringAddrPort();
        std::optional<CService> ps = Lookup(sp, /*portDefault=*/uint16_t(port ^ 1), /*fAllowLookup=*/false);
        if (ps && kind == 4) ps = MaybeFlipIPv6toCJDNS(*ps);
        VCHECK(ps.has_value() && *ps == svc && ps->GetPort() == port, "c60.tostring-fixpoint", "address:port string", sp, "parses to", ps ? ps->ToStringAddrPort() : "nothing");
    }
    if (kind <= 1 && !a.IsValid()) st.cls("invalid-ip");
    if (kind <= 1 && !a.IsRoutable()) st.cls("non-routable-ip");
    st.mix(uint64_t(port == 0 ? 0 : port == 65535 ? 2 : 1));
    st.mix(uint64_t(payload[0]) << 8 | payload[1]);
    st.nontrivial = true;
    g_reachable_nets.Reset();
}

// ================================================================================================ BanMan vs reference list
namespace {
struct RefSubnet { int kind; /*4, 6, or 100+net for non-IP*/ Bytes net; int L; std::string tag() const { return std::to_string(kind) + ":" + verif::hex(net) + "/" + std::to_string(L); } };
struct RefBan { RefSubnet sn; int64_t until; };

fs::path g_ban_dir;
void init_c60_ban()
{
    init_c60();
    // the ban file is rewritten on every ban/unban: keep it on tmpfs when there is one
    const char* tmp = getenv("TMPDIR");
    std::string root = (access("/dev/shm", W_OK) == 0) ? "/dev/shm" : (tmp && *tmp ? tmp : "/tmp");
    std::string base = root + "/vh_c60_ban_" + std::to_string(getpid());
    g_ban_dir = fs::PathFromString(base);
    fs::create_directories(g_ban_dir);
    atexit([] { std::error_code ec; fs::remove_all(g_ban_dir, ec); });
}

struct Pool {
    // a small universe: 3 IPv4 /16 neighbourhoods, 2 IPv6 neighbourhoods, 2 tor, 1 i2p
    static Bytes ip(unsigned i)
    {
        switch (i % 12) {
        case 0: return {10, 1, 2, 3}; case 1: return {10, 1, 2, 4}; case 2: return {10, 1, 130, 3}; case 3: return {10, 2, 2, 3}; case 4: return {11, 1, 2, 3};
        case 5: return {203, 0, 113, 77}; case 6: return {203, 0, 113, 78};
        case 7: return {0x2a, 1, 2, 3, 0, 0, 0, 0, 0, 0, 0, 0, 0, 0, 0, 1}; case 8: return {0x2a, 1, 2, 3, 0, 0, 0, 0, 0, 0, 0, 0, 0, 0, 0, 2};
        case 9: return {0x2a, 1, 2, 0x83, 0, 0, 0, 0, 0, 0, 0, 0, 0, 0, 0, 1}; case 10: return {0x2a, 2, 2, 3, 0, 0, 0, 0, 0x80, 0, 0, 0, 0, 0, 0, 1};
        default: return {0x2a, 1, 2, 3, 0, 0, 0, 0, 0x80, 0, 0, 0, 0, 0, 0, 1};
        }
    }
};
} // namespace

VERIF_TARGET(c60_banman, init_c60_ban, 8, 260,
             "ban/unban (address and subnet, relative/absolute/default durations, re-bans shorter and longer), clear, mock-time jumps to until-1/until/until+1, "
             "sweep via GetBanned, restart from the ban file, discourage; after every op IsBanned(address), IsBanned(subnet) and GetBanned are compared with a "
             "reference list (own CIDR matching, banned iff now < until); non-trivial = >=6 ops, >=1 subnet ban covering a probed address, >=1 expiry crossed "
             "and >=1 unban; distinct = op sequence + prefix lengths")
{
    g_reachable_nets.Reset();
    g_reachable_nets.Remove(NET_CJDNS);
    int64_t now = 1700000000;
    SetMockTime(now);
    const int64_t default_ban = 86400;
    fs::path file = g_ban_dir / "banlist";
    { std::error_code ec; fs::remove(fs::PathFromString(fs::PathToString(file) + ".json"), ec); }
    auto bm = std::make_unique<BanMan>(file, nullptr, default_ban);
    std::vector<RefBan> ref;
    std::vector<Bytes> discouraged;
    unsigned nops = 0, n_expiry = 0, n_unban = 0, n_cover = 0, n_restart = 0;
    std::vector<int64_t> untils;

    auto ref_find = [&](const RefSubnet& sn) -> RefBan* { for (auto& b : ref) if (b.sn.kind == sn.kind && b.sn.net == sn.net && b.sn.L == sn.L) return &b; return nullptr; };
    auto ref_covers = [&](const RefSubnet& sn, const Bytes& a) { return (sn.kind == 4 ? a.size() == 4 : sn.kind == 6 ? a.size() == 16 : false) && ref_prefix_match(a, sn.net, sn.L); };
    auto mk_subnet = [&](const RefSubnet& r) { return CSubNet(make_ip(r.net), uint8_t(r.L)); };
    auto gen_subnet = [&]() {
        Bytes a = Pool::ip(s.range<unsigned>(0, 11));
        int nbits = int(a.size()) * 8;
        int L = a.size() == 4 ? s.pick<int>({32, 24, 16, 17, 8, 31, 0, 25}) : s.pick<int>({128, 64, 32, 25, 65, 127, 0, 48});
        Bytes net = a;
        for (int i = L; i < nbits; ++i) if (ref_bit(net, i)) flip(net, i); // normalised network address (a subnet is its prefix)
        return RefSubnet{a.size() == 4 ? 4 : 6, net, L};
    };
    auto check_all = [&](const char* when) {
        // every pool address and every listed subnet
        for (unsigned i = 0; i < 12; ++i) {
            Bytes a = Pool::ip(i);
            bool expect = false;
            for (auto& b : ref) if (now < b.until && ref_covers(b.sn, a)) { expect = true; if (b.sn.L < int(a.size()) * 8) n_cover++; }
            bool got = bm->IsBanned(make_ip(a));
            st.steps++;
            VCHECK(got == expect, "c60.isbanned-addr", when, "address", fmt_ip(a), "impl", got, "ref", expect, "now", now);
        }
        for (auto& b : ref) {
            bool expect = now < b.until;
            bool got = bm->IsBanned(mk_subnet(b.sn));
            st.steps++;
            VCHECK(got == expect, "c60.isbanned-subnet", when, "subnet", b.sn.tag(), "impl", got, "ref", expect, "now", now, "until", b.until);
        }
        for (auto& d : discouraged) VCHECK(bm->IsDiscouraged(make_ip(d)), "c60.discouraged", when, "discouraged address no longer reported:", fmt_ip(d));
    };
    while (!s.exhausted() && nops < 60) {
        unsigned op = s.range<unsigned>(0, 31);
        if (op >= 30 || (op == 29 && n_restart >= 2)) op = 0;
        nops++;
        st.mix(op);
        if (op < 12) { // ban
            bool single = s.chance(90);
            RefSubnet r = gen_subnet();
            if (single) { Bytes a = Pool::ip(s.range<unsigned>(0, 11)); r = RefSubnet{a.size() == 4 ? 4 : 6, a, int(a.size()) * 8}; }
            int64_t offset;
            bool absolute = false;
            switch (s.range<unsigned>(0, 5)) {
            case 0: offset = 0; break;                                  // default ban time
            case 1: offset = -5; break;                                 // non-positive => default
            case 2: offset = now + s.pick<int64_t>({1, 100, 5000, -10, 0}); absolute = true; break;
            default: offset = s.pick<int64_t>({1, 2, 60, 3600, 100000});
            }
            int64_t until = (offset <= 0) ? now + default_ban : (absolute ? offset : now + offset);
            if (single) bm->Ban(make_ip(r.net), offset, absolute); else bm->Ban(mk_subnet(r), offset, absolute);
            // reference: an existing entry is only ever extended
            if (RefBan* e = ref_find(r)) { if (e->until < until) e->until = until; } else ref.push_back({r, until});
            untils.push_back(until);
            st.mix(uint64_t(r.L));
            st.cls(single ? "ban-address" : "ban-subnet");
            if (absolute) st.cls("ban-absolute-time");
            st.note("ban ", r.tag(), " until now", until - now >= 0 ? "+" : "", until - now);
        } else if (op < 16) { // unban
            RefSubnet r = (!ref.empty() && s.chance(200)) ? ref[s.index(ref.size())].sn : gen_subnet();
            RefBan* e = ref_find(r);
            bool live = e && now <= e->until; // an entry not yet swept (now <= until) is certainly still listed
            bool got = (r.L == int(r.net.size()) * 8 && s.boolean()) ? bm->Unban(make_ip(r.net)) : bm->Unban(mk_subnet(r));
            st.steps++;
            if (live) VCHECK(got, "c60.unban", "Unban of a listed subnet reported failure", r.tag());
            if (!e) VCHECK(!got, "c60.unban", "Unban of a never-banned subnet reported success", r.tag());
            if (e) { ref.erase(ref.begin() + (e - ref.data())); n_unban++; st.cls("unban-listed"); }
            st.note("unban ", r.tag(), " -> ", got);
        } else if (op < 24) { // time
            int64_t target = now;
            if (!untils.empty() && s.chance(180)) { target = untils[s.index(untils.size())] + s.pick<int64_t>({-1, 0, 1}); }
            else target = now + s.pick<int64_t>({1, 59, 3600, 86399, 86400, 86401});
            if (target > now) {
                for (auto& b : ref) if (now < b.until && target >= b.until) { n_expiry++; st.cls("expiry-crossed"); }
                now = target;
                SetMockTime(now);
                st.note("time -> +", now - 1700000000);
            }
        } else if (op < 26) { // sweep through GetBanned: lists exactly the entries that have not expired (now <= until is still listed)
            banmap_t m;
            bm->GetBanned(m);
            st.steps++;
            for (auto& b : ref) if (now < b.until) VCHECK(m.count(mk_subnet(b.sn)), "c60.getbanned", "unexpired ban missing from GetBanned", b.sn.tag());
            for (auto& [sn, entry] : m) {
                bool found = false;
                for (auto& b : ref) if (mk_subnet(b.sn) == sn && now <= b.until) { found = true; VCHECK(entry.nBanUntil == b.until, "c60.getbanned", "ban end differs", b.sn.tag(), entry.nBanUntil, b.until); }
                VCHECK(found, "c60.getbanned", "GetBanned lists a subnet without an unexpired reference ban:", sn.ToString());
            }
            // swept entries are gone for good in the implementation; the reference drops expired entries as well
            ref.erase(std::remove_if(ref.begin(), ref.end(), [&](const RefBan& b) { return now > b.until; }), ref.end());
            st.cls("op-getbanned");
            st.note("getbanned ", m.size());
        } else if (op < 28) { // discourage
            Bytes a = Pool::ip(s.range<unsigned>(0, 11));
            bm->Discourage(make_ip(a));
            discouraged.push_back(a);
            st.cls("op-discourage");
            st.note("discourage ", fmt_ip(a));
        } else if (op < 29) { // clear bans (discouragement is a separate mechanism and stays)
            bm->ClearBanned();
            ref.clear();
            st.cls("op-clear");
            st.note("clear");
        } else { // restart: bans are kept in the ban file, discouragement is memory only
            bm.reset();
            bm = std::make_unique<BanMan>(file, nullptr, default_ban);
            discouraged.clear();
            ref.erase(std::remove_if(ref.begin(), ref.end(), [&](const RefBan& b) { return now > b.until; }), ref.end());
            n_restart++;
            st.cls("op-restart");
            st.note("restart");
        }
        check_all("after-op");
    }
    bm.reset();
    { std::error_code ec; fs::remove(fs::PathFromString(fs::PathToString(file) + ".json"), ec); }
    if (n_cover) st.cls("subnet-ban-covers-address");
    st.nontrivial = nops >= 6 && n_cover > 0 && n_expiry > 0 && n_unban > 0;
    SetMockTime(0);
    g_reachable_nets.Reset();
}
