// C23 — Block templates built from the mempool are always valid.
// On C22-style histories (kits/mempoolhist), at random points and at the end, node::BlockAssembler::CreateNewBlock is called with generated
// BlockCreateOptions (max weight reserved..4 000 000 incl. values that admit only a few transactions, reserved weight 2000.., min fee
// rate, coinbase sigop reservation up to 80 000, coinbase script; test_block_validity OFF so that the harness is the validator).
// Oracles, all recomputed by the harness:
//   order      every transaction comes after all of its in-template parents
//   weight     sum of own-computed tx weights + reserved weight <= configured max weight
//   sigops     sum of own-counted sigop costs + reserved coinbase sigops <= 80 000
//   final      every transaction is final for (height+1, MTP(tip)) by the own nLockTime model
//   coinbase   sum of coinbase outputs == own subsidy + sum(in - out) over the template (coins from the RefLedger UTXO + template outputs)
//   model      the model's next-block rules (inputs, maturity, amounts, nLockTime, BIP68) accept the transactions in template order
//   valid      the template with merkle root + PoW filled in passes TestBlockValidity; sometimes it is also delivered through
//              ProcessNewBlock and must become the tip (the history then continues on top of it)
#include <engine/verif.h>
#include <kits/mempoolhist.h>

#include <node/miner.h>
#include <node/mining_types.h>
#include <test/util/script.h>

#include <set>

using namespace verif;

namespace {

struct TemplateOracle {
    MempoolSim& ms;
    Src& s;
    Stats& st;
    int templates{0};
    bool nontrivial{false};

    void MakeAndCheck(const char* where)
    {
        const PoolSnap& snap = ms.LastSnap();
        const ModelPool& pool = ms.Belief();
        int64_t pool_weight = 0;
        for (const auto& [id, e] : snap.entries) pool_weight += e.weight;
        const size_t nclusters = pool.Clusters().size();

        node::BlockCreateOptions opt;
        opt.test_block_validity = false;
        const uint64_t reserved = s.pick<uint64_t>({8000, 2000, 4000, 2001, 12000});
        if (reserved != 8000 || s.boolean()) opt.block_reserved_weight = reserved;
        const unsigned wmode = s.range<unsigned>(0, 7);
        uint64_t maxw = 4'000'000;
        if (wmode == 1 || wmode == 5) maxw = reserved + s.range<uint64_t>(0, 6000);
        else if (wmode == 2 || wmode == 6 || wmode == 7) maxw = reserved + uint64_t(pool_weight) * s.range<uint64_t>(1, 4) / 4 + s.range<uint64_t>(0, 2);
        else if (wmode == 3) maxw = s.range<uint64_t>(reserved, 4'000'000);
        else if (wmode == 4) maxw = reserved;
        maxw = std::min<uint64_t>(maxw, 4'000'000);
        if (wmode != 0 || s.boolean()) opt.block_max_weight = maxw;
        const unsigned fmode = s.range<unsigned>(0, 4);
        if (fmode == 1) opt.block_min_fee_rate = CFeeRate{0};
        if (fmode == 2) opt.block_min_fee_rate = CFeeRate{1000};
        if (fmode == 3) opt.block_min_fee_rate = CFeeRate{5000};
        if (fmode == 4) opt.block_min_fee_rate = CFeeRate{40000};
        const unsigned smode = s.range<unsigned>(0, 5);
        size_t sig_res = 400;
        if (smode == 1) sig_res = 0;
        if (smode == 2) sig_res = 80000 - s.range<size_t>(0, 60);
        if (smode == 3) sig_res = 79000;
        if (smode == 4) sig_res = 80000 - s.range<size_t>(0, 800);
        opt.coinbase_output_max_additional_sigops = sig_res;
        const unsigned cmode = s.range<unsigned>(0, 2);
        if (cmode == 1) opt.coinbase_output_script = P2WSH_OP_TRUE;
        if (cmode == 2 && sig_res >= 4 && sig_res <= 79000) opt.coinbase_output_script = ms.sim().keys.Script(SpkType::P2PKH, 3);

        std::unique_ptr<node::CBlockTemplate> tmpl;
        {
            node::BlockAssembler assembler{ms.sim().chainstate(), &ms.pool(), opt};
            tmpl = assembler.CreateNewBlock();
        }
        templates++;
        st.steps++;
        const CBlock& blk = tmpl->block;
        VCHECK(!blk.vtx.empty() && blk.vtx[0]->IsCoinBase(), "c23.structure", where, "template has no coinbase first");
        const int height = ms.TipHeight() + 1;
        const RefUtxo& utxo = ms.ChainUtxo();

        std::map<Txid, size_t> pos;
        for (size_t i = 1; i < blk.vtx.size(); ++i) pos[blk.vtx[i]->GetHash()] = i;
        int64_t weight = 0, sigops = 0;
        __int128 fees = 0;
        std::vector<CTransactionRef> txs;
        for (size_t i = 1; i < blk.vtx.size(); ++i) {
            const CTransaction& tx = *blk.vtx[i];
            txs.push_back(blk.vtx[i]);
            __int128 in = 0, out = 0;
            for (const auto& txin : tx.vin) {
                auto p = pos.find(txin.prevout.hash);
                if (p != pos.end()) {
                    VCHECK(p->second < i, "c23.order", where, "tx", i, tx.GetHash().ToString(), "comes before its in-template parent at", p->second);
                    VCHECK(txin.prevout.n < blk.vtx[p->second]->vout.size(), "c23.order", where, "tx spends a non-existent output of an in-template parent");
                    in += blk.vtx[p->second]->vout[txin.prevout.n].nValue;
                } else {
                    auto u = utxo.find(txin.prevout);
                    VCHECK(u != utxo.end(), "c23.inputs", where, "tx", tx.GetHash().ToString(), "spends", txin.prevout.ToString(), "which is neither an earlier template output nor an unspent chain output");
                    in += u->second.value;
                }
            }
            for (const auto& o : tx.vout) out += o.nValue;
            VCHECK(in >= out, "c23.inputs", where, "tx", tx.GetHash().ToString(), "spends more than its inputs");
            fees += in - out;
            weight += int64_t(::GetSerializeSize(TX_NO_WITNESS(tx))) * 3 + int64_t(::GetSerializeSize(TX_WITH_WITNESS(tx)));
            sigops += ModelSigOpCost(tx, [&](const COutPoint& op) -> std::optional<CScript> {
                auto p = pos.find(op.hash);
                if (p != pos.end() && op.n < blk.vtx[p->second]->vout.size()) return blk.vtx[p->second]->vout[op.n].scriptPubKey;
                auto u = utxo.find(op);
                if (u != utxo.end()) return u->second.spk;
                return std::nullopt;
            });
            VCHECK(ModelIsFinal(tx, height, ms.TipMTP()), "c23.final", where, "tx", tx.GetHash().ToString(), "locktime", tx.nLockTime, "is not final for height", height, "mtp", ms.TipMTP());
        }
        const uint64_t eff_reserved = opt.block_reserved_weight ? *opt.block_reserved_weight : 8000;
        const uint64_t eff_max = opt.block_max_weight ? *opt.block_max_weight : 4'000'000;
        VCHECK(uint64_t(weight) + eff_reserved <= eff_max, "c23.weight", where, "template tx weight", weight, "+ reserved", eff_reserved, "exceeds configured max", eff_max);
        VCHECK(sigops + int64_t(sig_res) <= 80000, "c23.sigops", where, "template sigop cost", sigops, "+ reserved", sig_res, "exceeds 80000");
        CAmount cb_out = 0;
        for (const auto& o : blk.vtx[0]->vout) cb_out += o.nValue;
        const CAmount want = RefLedger::Subsidy(height, ms.sim().ledger.halving_interval) + CAmount(fees);
        VCHECK(cb_out == want, "c23.coinbase", where, "coinbase pays", cb_out, "but subsidy + fees =", want, "fees", int64_t(fees), "txs", txs.size());
        const std::string verdict = ms.ModelNextBlockVerdict(txs);
        VCHECK(verdict.empty(), "c23.model", where, "template transactions violate the model's next-block rules:", verdict);

        // full validation of the template itself (its own coinbase and witness commitment; merkle root and nonce filled in)
        auto mined = std::make_shared<CBlock>(blk);
        ms.sim().Finalize(*mined, /*commit_witness=*/false, /*regrind=*/true);
        const BlockValidationState bs = ms.sim().TestValidity(*mined);
        VCHECK(bs.IsValid(), "c23.valid", where, "template fails TestBlockValidity:", StateStr(bs), "txs", txs.size(), "weight", weight);

        const size_t included = txs.size();
        const bool binding = included < snap.entries.size();
        if (included == 0) st.cls("template-empty"); else if (!binding) st.cls("template-all"); else st.cls("template-partial");
        if (wmode == 1 || wmode == 2 || wmode >= 4) st.cls("cfg-tight-weight");
        if (smode == 2 || smode == 4) st.cls("cfg-tight-sigops");
        if (fmode >= 2) st.cls("cfg-minfee");
        bool has_delta = false;
        for (const auto& t : txs) { auto e = snap.entries.find(t->GetHash()); if (e != snap.entries.end() && e->second.modified_fee != e->second.fee) has_delta = true; }
        if (has_delta) st.cls("template-with-prioritised-tx");
        if (nclusters >= 3 && binding && included > 0) { nontrivial = true; st.cls("3-clusters-binding-limit"); }
        st.mix(uint64_t(1000 + wmode * 100 + fmode * 10 + smode));
        st.mix(uint64_t(included));
        Note(st, "template@", where, " pool=", snap.entries.size(), " clusters=", nclusters, " maxw=", eff_max, " reserved=", eff_reserved, " minfee-mode=", fmode,
             " sigres=", sig_res, " -> txs=", included, " weight=", weight, " sigops=", sigops, " fees=", int64_t(fees));

        if (s.chance(60) && !ms.sim().ledger.Known(mined->GetHash())) { // (an identical template may have been mined and invalidated earlier: not re-delivered)
            // mine it for real: ProcessNewBlock must accept it and it must become the tip
            ms.sim().Register(mined);
            const auto d = ms.sim().Deliver(mined);
            VCHECK(d.processed && ms.TipHash() == mined->GetHash(), "c23.accepted", where, "mined template was not accepted as the new tip:", d.verdict ? StateStr(*d.verdict) : "no verdict");
            st.cls("template-delivered");
            Note(st, "template delivered -> height ", ms.TipHeight());
            ms.Sync();
        }
    }
};

} // namespace

VERIF_TARGET(c23_template, nullptr, 140, 2000,
             "C22-style mempool histories (kits/mempoolhist: submissions incl. RBF/TRUC/dust/CPFP/timelocks/coinbase spends, mined blocks, reorgs, time jumps, prioritisation, trim); "
             "after ~1/3 of the operations and at the end a block template is built with generated BlockCreateOptions (max weight from 'reserved only' over 'a few transactions' to "
             "4 000 000, reserved weight 2000-12000, min fee rate 0-40 sat/vB, coinbase sigop reservation 0..80 000, coinbase script) and validated independently; some templates are "
             "mined and delivered. non-trivial = some template was built from a pool of >= 3 clusters, is non-empty and excludes at least one pool transaction (a limit was binding); "
             "distinct = history shape + option modes + number of included transactions")
{
    MempoolSimOpts o = PickHistoryConfig(s, st);
    o.with_mempool_checks = false; // CTxMemPool::check() after every ATMP is C22's extra monitor; here it would only cost time (256 KiB cache per call)
    MempoolSim ms(o);
    TemplateOracle oracle{ms, s, st};
    HistoryHooks hooks;
    hooks.prefix = "c23";
    hooks.check = [&](const char* where) {
        if (s.chance(85)) oracle.MakeAndCheck(where);
    };
    MempoolHistory h(ms, s, st, hooks);
    h.WarmUp(3);
    h.Run(s.range<unsigned>(5, 40));
    ms.Sync();
    oracle.MakeAndCheck("end");
    h.Finish();
    st.nontrivial = oracle.nontrivial;
    if (h.reorgs) st.cls("history-with-reorg");
    Note(st, "templates=", oracle.templates);
}
