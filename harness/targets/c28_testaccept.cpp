// C28 — Test-accept is faithful and side-effect free; policy implies consensus.
// On C22-style histories every single-transaction submission is done twice: first with test_accept=true, then for real.
//   side-effect   full snapshot of the pool (entries, fees, modified fees, links/graph answers, times, lock points, deltas, sequence number,
//                 unbroadcast set, transactions-updated counter, memory usage, min fee) is identical before and after the test-accept
//   verdict       guarded as the statement says (nothing happens in between; pool usage below 75 % of its maximum; nothing in the pool is old
//                 enough to expire, because a real submission runs Expire and a test does not): result type, validation result code and
//                 reject reason of the real submission equal those of the test; for VALID also vsize and base fee
//   consensus     every input of every transaction that a test-accept or a submission reports VALID is re-verified by the harness with
//                 VerifyScript under the consensus flags of the next block (own flag set from the deployments active on regtest)
#include <engine/verif.h>
#include <kits/mempoolhist.h>

#include <script/interpreter.h>

#include <set>

using namespace verif;

namespace {

const char* ResTypeName(MempoolAcceptResult::ResultType t)
{
    switch (t) {
    case MempoolAcceptResult::ResultType::VALID: return "VALID";
    case MempoolAcceptResult::ResultType::INVALID: return "INVALID";
    case MempoolAcceptResult::ResultType::MEMPOOL_ENTRY: return "MEMPOOL_ENTRY";
    case MempoolAcceptResult::ResultType::DIFFERENT_WITNESS: return "DIFFERENT_WITNESS";
    }
    return "?";
}

struct TestAcceptOracle {
    MempoolSim& ms;
    Stats& st;
    int64_t max_bytes;
    int64_t expiry_s;
    int compared{0}, valid_pairs{0}, invalid_pairs{0}, skipped{0};
    bool tested_with_pool{false};

    void CheckConsensusScripts(const CTransaction& tx, const PoolSnap& pool_before, const char* what)
    {
        // consensus script flags of the next block on regtest (all buried deployments and taproot are active at these heights)
        const script_verify_flags flags = SCRIPT_VERIFY_P2SH | SCRIPT_VERIFY_DERSIG | SCRIPT_VERIFY_CHECKLOCKTIMEVERIFY | SCRIPT_VERIFY_CHECKSEQUENCEVERIFY |
                                          SCRIPT_VERIFY_WITNESS | SCRIPT_VERIFY_NULLDUMMY | SCRIPT_VERIFY_TAPROOT;
        std::vector<CTxOut> spent;
        for (const auto& in : tx.vin) {
            std::optional<CTxOut> c;
            auto e = pool_before.entries.find(in.prevout.hash);
            if (e != pool_before.entries.end() && in.prevout.n < e->second.tx->vout.size()) c = e->second.tx->vout[in.prevout.n];
            if (!c) { auto u = ms.ChainUtxo().find(in.prevout); if (u != ms.ChainUtxo().end()) c = CTxOut(u->second.value, u->second.spk); }
            VCHECK(c.has_value(), "c28.consensus", what, "accepted tx spends an output the harness cannot find:", in.prevout.ToString());
            spent.push_back(*c);
        }
        PrecomputedTransactionData txdata;
        txdata.Init(tx, std::vector<CTxOut>(spent), /*force=*/true);
        for (unsigned i = 0; i < tx.vin.size(); ++i) {
            ScriptError err;
            const bool ok = VerifyScript(tx.vin[i].scriptSig, spent[i].scriptPubKey, &tx.vin[i].scriptWitness, flags,
                                         TransactionSignatureChecker(&tx, i, spent[i].nValue, txdata, MissingDataBehavior::ASSERT_FAIL), &err);
            st.steps++;
            VCHECK(ok, "c28.consensus", what, "input", i, "of accepted tx", tx.GetHash().ToString(), "fails the consensus script check:", ScriptErrorString(err));
        }
    }

    MempoolAcceptResult TestThenSubmit(const GenTx& g)
    {
        const PoolSnap before = ms.Snapshot();
        const MempoolAcceptResult t = ms.Submit(g.tx, /*test_accept=*/true);
        const PoolSnap mid = ms.Snapshot();
        st.steps++;
        const std::string diff = before.Diff(mid);
        VCHECK(diff.empty(), "c28.side-effect", "test-accept changed the mempool:", diff, "tx", g.tx->GetHash().ToString(), "test result", TxStateStr(t));
        VCHECK(before.Digest() == mid.Digest(), "c28.side-effect", "pool digest differs after test-accept", "tx", g.tx->GetHash().ToString());
        if (before.entries.size() >= 3) tested_with_pool = true;
        if (t.m_result_type == MempoolAcceptResult::ResultType::VALID) CheckConsensusScripts(*g.tx, before, "test-accept");

        const MempoolAcceptResult r = ms.Submit(g.tx, /*test_accept=*/false);
        if (r.m_result_type == MempoolAcceptResult::ResultType::VALID) CheckConsensusScripts(*g.tx, before, "submission");

        // guards of the statement
        bool guard = int64_t(before.usage) * 4 < max_bytes * 3;
        for (const auto& [id, e] : before.entries) if (e.time <= ms.Now() - expiry_s + 1) guard = false; // something could expire during the real submission
        if (!guard) { skipped++; st.cls("verdict-guard-skipped"); return r; }
        compared++;
        st.steps++;
        const bool same = t.m_result_type == r.m_result_type && t.m_state.GetResult() == r.m_state.GetResult() && t.m_state.GetRejectReason() == r.m_state.GetRejectReason();
        VCHECK(same, "c28.verdict", "test-accept said", ResTypeName(t.m_result_type), t.m_state.GetRejectReason(), "but submission said", ResTypeName(r.m_result_type), r.m_state.GetRejectReason(),
               "tx", g.tx->GetHash().ToString(), "kind", GenKindName(g.kind));
        if (r.m_result_type == MempoolAcceptResult::ResultType::VALID) {
            VCHECK(t.m_vsize == r.m_vsize && t.m_base_fees == r.m_base_fees, "c28.verdict", "test-accept and submission report different vsize/fee for", g.tx->GetHash().ToString());
            valid_pairs++;
            st.cls("pair-valid");
            if (!r.m_replaced_transactions.empty()) st.cls("pair-valid-replacement");
        } else {
            invalid_pairs++;
            st.cls("pair-invalid");
            st.cls("pair-invalid-" + r.m_state.GetRejectReason());
        }
        return r;
    }
};

} // namespace

VERIF_TARGET(c28_testaccept, nullptr, 140, 2000,
             "C22-style mempool histories (kits/mempoolhist); every single-transaction submission (plain, chains, merges, RBF conflicts at the fee threshold, TRUC incl. sibling eviction, "
             "timelocks/BIP68/coinbase spends at their boundaries, oversized, junk, re-submissions, children of dusty parents) is first test-accepted, then submitted: the full pool "
             "snapshot must be unchanged by the test, the verdicts must agree (guards: pool below 75 % of max size, nothing expirable), and every VALID transaction's inputs must pass "
             "VerifyScript under next-block consensus flags. non-trivial = at least 3 compared pairs incl. one VALID and one INVALID, with a pool of >= 3 entries at some test; "
             "distinct = history shape + verdicts")
{
    MempoolSimOpts o = PickHistoryConfig(s, st);
    o.with_mempool_checks = false; // CTxMemPool::check() after every ATMP is C22's extra monitor; here it would only cost time (256 KiB cache per call)
    MempoolSim ms(o);
    TestAcceptOracle oracle{ms, st, ms.pool().m_opts.max_size_bytes, int64_t(ms.pool().m_opts.expiry.count())};
    HistoryHooks hooks;
    hooks.prefix = "c28";
    hooks.submit_tx = [&](const GenTx& g) { return oracle.TestThenSubmit(g); };
    MempoolHistory h(ms, s, st, hooks);
    h.WarmUp(3);
    h.Run(s.range<unsigned>(6, 44));
    h.Finish();
    st.nontrivial = oracle.compared >= 3 && oracle.valid_pairs >= 1 && oracle.invalid_pairs >= 1 && oracle.tested_with_pool;
    st.mix(uint64_t(oracle.valid_pairs));
    st.mix(uint64_t(oracle.invalid_pairs));
    Note(st, "pairs compared=", oracle.compared, " valid=", oracle.valid_pairs, " invalid=", oracle.invalid_pairs, " guard-skipped=", oracle.skipped);
}
