// C45 (BIP32 part) -- keys derived along any BIP32 path match the standard derivation, and public derivation equals the public
// key of private derivation.
//
// Own reference, written from BIP32 ("Child key derivation functions", "Serialization format", "Master key generation"):
// scalar arithmetic mod n in boost::multiprecision::cpp_int, own message layout for hardened / unhardened steps, own bookkeeping of
// depth / parent fingerprint / child number, own 74-byte serialization. SHARED with the code under test (stated in the manifest):
// HMAC-SHA512, SHA256+RIPEMD160 (both checked against hashlib by C49) and the EC point multiplication k -> k*G (CKey::GetPubKey,
// checked against secp256k1.py by C50). The reference reproduces BIP32 test vector 1 (m/0H) at start-up. The fully independent
// Python BIP32 reference runs at lower volume through engine E2 (py/c45_bip32.py).
//
//  c45.bip32-ref      every step of CExtKey::Derive (private) == reference (key, chain code, depth, fingerprint, child number)
//                     and the neutered key == reference public serialization
//  c45.bip32-neuter   unhardened step: Neuter(parent).Derive(i) succeeds and == Neuter(parent.Derive(i))
//  c45.bip32-depth    derivation from depth 255 fails (depth is one byte)
//  c45.bip32-string   Encode/Decode(ExtKey|ExtPubKey) round trip on the selected network; the Base58Check payload is
//                     version bytes (documented: 0488ADE4/0488B21E main, 04358394/043587CF test networks) || 74-byte serialization
#include <engine/verif.h>

#include <base58.h>
#include <chainparams.h>
#include <crypto/hmac_sha512.h>
#include <crypto/ripemd160.h>
#include <crypto/sha256.h>
#include <key.h>
#include <key_io.h>
#include <pubkey.h>
#include <util/chaintype.h>
#include <util/strencodings.h>

#include <boost/multiprecision/cpp_int.hpp>

#include <array>
#include <memory>
#include <optional>
#include <string>
#include <vector>

namespace {
using boost::multiprecision::cpp_int;
using Bytes = std::vector<unsigned char>;

const cpp_int& OrderN()
{
    static const cpp_int n("0xFFFFFFFFFFFFFFFFFFFFFFFFFFFFFFFEBAAEDCE6AF48A03BBFD25E8CD0364141");
    return n;
}

cpp_int FromBE(const unsigned char* p, size_t n)
{
    cpp_int v = 0;
    for (size_t i = 0; i < n; ++i) v = (v << 8) | p[i];
    return v;
}
Bytes ToBE32(cpp_int v)
{
    Bytes out(32, 0);
    for (int i = 31; i >= 0; --i) { out[i] = static_cast<unsigned char>(static_cast<unsigned>(v & 0xff)); v >>= 8; }
    return out;
}

struct RefX {
    unsigned depth{0};
    std::array<unsigned char, 4> fpr{{0, 0, 0, 0}};
    uint32_t child{0};
    Bytes cc;       // 32
    cpp_int k;
};

/** serP(point(k)): compressed encoding of k*G. EC multiplication is the shared primitive. */
Bytes PointOf(const cpp_int& k)
{
    Bytes kb = ToBE32(k);
    CKey key;
    key.Set(kb.begin(), kb.end(), true);
    if (!key.IsValid()) return {};
    CPubKey pub = key.GetPubKey();
    return Bytes(pub.begin(), pub.end());
}

Bytes Hmac512(const Bytes& key, const Bytes& data)
{
    Bytes out(64);
    CHMAC_SHA512(key.data(), key.size()).Write(data.data(), data.size()).Finalize(out.data());
    return out;
}

std::optional<RefX> RefMaster(const Bytes& seed)
{
    static const Bytes salt{'B', 'i', 't', 'c', 'o', 'i', 'n', ' ', 's', 'e', 'e', 'd'};
    Bytes I = Hmac512(salt, seed);
    RefX x;
    x.k = FromBE(I.data(), 32);
    if (x.k == 0 || x.k >= OrderN()) return std::nullopt;
    x.cc.assign(I.begin() + 32, I.end());
    return x;
}

std::optional<RefX> RefCKDpriv(const RefX& par, uint32_t i)
{
    if (par.depth >= 255) return std::nullopt;
    const Bytes P = PointOf(par.k);
    Bytes data;
    if (i & 0x80000000u) {
        data.push_back(0);
        Bytes kb = ToBE32(par.k);
        data.insert(data.end(), kb.begin(), kb.end());
    } else {
        data = P;
    }
    for (int sh = 24; sh >= 0; sh -= 8) data.push_back(static_cast<unsigned char>(i >> sh));
    Bytes I = Hmac512(par.cc, data);
    const cpp_int il = FromBE(I.data(), 32);
    RefX c;
    if (il >= OrderN()) return std::nullopt;
    c.k = (il + par.k) % OrderN();
    if (c.k == 0) return std::nullopt;
    c.cc.assign(I.begin() + 32, I.end());
    c.depth = par.depth + 1;
    c.child = i;
    unsigned char h1[32], h2[20];
    CSHA256().Write(P.data(), P.size()).Finalize(h1);
    CRIPEMD160().Write(h1, 32).Finalize(h2);
    std::copy(h2, h2 + 4, c.fpr.begin());
    return c;
}

/** BIP32 serialization without the 4 version bytes: depth, fingerprint, child (BE), chain code, 0x00||k  or  serP(K). */
Bytes RefSer(const RefX& x, bool priv)
{
    Bytes out;
    out.push_back(static_cast<unsigned char>(x.depth));
    out.insert(out.end(), x.fpr.begin(), x.fpr.end());
    for (int sh = 24; sh >= 0; sh -= 8) out.push_back(static_cast<unsigned char>(x.child >> sh));
    out.insert(out.end(), x.cc.begin(), x.cc.end());
    if (priv) {
        out.push_back(0);
        Bytes kb = ToBE32(x.k);
        out.insert(out.end(), kb.begin(), kb.end());
    } else {
        Bytes P = PointOf(x.k);
        out.insert(out.end(), P.begin(), P.end());
    }
    return out;
}

Bytes SerOf(const CExtKey& x)
{
    Bytes out(BIP32_EXTKEY_SIZE);
    x.Encode(out.data());
    return out;
}
Bytes SerOf(const CExtPubKey& x)
{
    Bytes out(BIP32_EXTKEY_SIZE);
    x.Encode(out.data());
    return out;
}

struct NetVer {
    ChainType chain;
    const char* name;
    unsigned char xprv[4], xpub[4];
};
const NetVer kVer[5] = {
    {ChainType::MAIN, "main", {0x04, 0x88, 0xAD, 0xE4}, {0x04, 0x88, 0xB2, 0x1E}},
    {ChainType::TESTNET, "test", {0x04, 0x35, 0x83, 0x94}, {0x04, 0x35, 0x87, 0xCF}},
    {ChainType::TESTNET4, "testnet4", {0x04, 0x35, 0x83, 0x94}, {0x04, 0x35, 0x87, 0xCF}},
    {ChainType::SIGNET, "signet", {0x04, 0x35, 0x83, 0x94}, {0x04, 0x35, 0x87, 0xCF}},
    {ChainType::REGTEST, "regtest", {0x04, 0x35, 0x83, 0x94}, {0x04, 0x35, 0x87, 0xCF}},
};

std::unique_ptr<ECC_Context> g_ecc;
void init_c45_bip32()
{
    if (g_ecc) return;
    g_ecc = std::make_unique<ECC_Context>();
    SelectParams(ChainType::MAIN);
    // BIP32 test vector 1, chain m/0H (the reference must reproduce the published serialization on its own)
    auto m = RefMaster(ParseHex("000102030405060708090a0b0c0d0e0f"));
    auto c = m ? RefCKDpriv(*m, 0x80000000u) : std::nullopt;
    Bytes want;
    bool ok = c && DecodeBase58Check("xprv9uHRZZhk6KAJC1avXpDAp4MDc3sQKNxDiPvvkX8Br5ngLNv1TxvUxt4cV1rGL5hj6KCesnDYUhd7oWgT11eZG7XnxHrnYeSvkzY7d2bhkJ7", want, 100);
    if (ok) {
        Bytes got{0x04, 0x88, 0xAD, 0xE4};
        Bytes ser = RefSer(*c, true);
        got.insert(got.end(), ser.begin(), ser.end());
        ok = got == want;
    }
    Bytes wantpub;
    ok = ok && DecodeBase58Check("xpub68Gmy5EdvgibQVfPdqkBBCHxA5htiqg55crXYuXoQRKfDBFA1WEjWgP6LHhwBZeNK1VTsfTFUHCdrfp1bgwQ9xv5ski8PX9rL2dZXvgGDnw", wantpub, 100);
    if (ok) {
        Bytes got{0x04, 0x88, 0xB2, 0x1E};
        Bytes ser = RefSer(*c, false);
        got.insert(got.end(), ser.begin(), ser.end());
        ok = got == wantpub;
    }
    if (!ok) {
        fprintf(stderr, "c45: own BIP32 reference fails BIP32 test vector 1\n");
        abort();
    }
}

uint32_t PickIndex(verif::Src& s)
{
    switch (s.range<int>(0, 7)) {
    case 0: return 0;
    case 1: return 1;
    case 2: return 0x7fffffffu;
    case 3: return 0x80000000u;
    case 4: return 0xffffffffu;
    case 5: return 0x80000000u + s.range<uint32_t>(0, 100);
    case 6: return s.range<uint32_t>(0, 100);
    default: return s.ConsumeIntegral<uint32_t>();
    }
}

} // namespace

VERIF_TARGET(c45_bip32, init_c45_bip32, 24, 96,
             "seed (16..64 bytes) and a path of depth 0..8 (rarely 255+) over boundary and random indexes, hardened and unhardened; every "
             "step compared with the own BIP32 reference, neuter/derive commutation, string round trip on a generated network; "
             "non-trivial = path has >= 1 hardened and >= 1 unhardened step; distinct = step kinds (hardened?, boundary class) sequence")
{
    const int depth = s.chance(2) ? 257 : s.range<int>(0, 8);
    const int net = s.range<int>(0, 4);
    const size_t seed_len = s.pick<size_t>({32, 16, 64, s.range<size_t>(16, 64)});
    Bytes seed = s.bytes(seed_len);
    seed.resize(seed_len, 0);

    CExtKey cur;
    cur.SetSeed(MakeByteSpan(seed));
    auto ref = RefMaster(seed);
    if (!ref) { st.cls("invalid-master(2^-127)"); return; }
    st.steps++;
    VCHECK(SerOf(cur) == RefSer(*ref, true), "c45.bip32-ref", "master key", HexStr(seed), HexStr(SerOf(cur)), "reference", HexStr(RefSer(*ref, true)));

    SelectParams(kVer[net].chain);
    int n_h = 0, n_u = 0;
    for (int d = 0; d < depth; ++d) {
        const uint32_t idx = depth > 8 ? (d % 3 == 0 ? 0x80000000u + d : uint32_t(d)) : PickIndex(s);
        const bool hardened = idx >> 31;
        (hardened ? n_h : n_u)++;
        st.note(idx & 0x7fffffffu, hardened ? "h" : "");
        if (depth <= 8) st.mix(uint64_t(hardened) + 2 * uint64_t(idx == 0 || idx == 1 || (idx & 0x7fffffffu) == 0x7fffffffu || idx == 0x80000000u));
        CExtKey child;
        const bool ok = cur.Derive(child, idx);
        auto rchild = RefCKDpriv(*ref, idx);
        if (ref->depth >= 255) {
            st.steps++;
            VCHECK(!ok, "c45.bip32-depth", "derivation beyond depth 255 succeeded");
            st.cls("depth-255-refused");
            break;
        }
        if (!rchild) {   // IL >= n or child key zero (probability < 2^-127): BIP32 says the step is invalid
            VCHECK(!ok, "c45.bip32-ref", "invalid child accepted", idx);
            break;
        }
        st.steps++;
        VCHECK(ok, "c45.bip32-ref", "Derive failed", "index", idx, "depth", ref->depth);
        const Bytes got = SerOf(child), want = RefSer(*rchild, true);
        st.steps++;
        VCHECK(got == want, "c45.bip32-ref", "private child differs", "index", idx, "depth", rchild->depth, HexStr(got), "reference", HexStr(want));
        const CExtPubKey child_pub = child.Neuter();
        st.steps++;
        VCHECK(SerOf(child_pub) == RefSer(*rchild, false), "c45.bip32-ref", "neutered child differs", "index", idx, HexStr(SerOf(child_pub)),
               "reference", HexStr(RefSer(*rchild, false)));
        // public derivation
        // (CPubKey::Derive documents by assert that it is only called for unhardened indexes: respected here)
        if (!hardened) {
            CExtPubKey from_pub;
            const bool pub_ok = cur.Neuter().Derive(from_pub, idx);
            st.steps++;
            VCHECK(pub_ok && from_pub == child_pub && SerOf(from_pub) == SerOf(child_pub), "c45.bip32-neuter", "N(CKDpriv) != CKDpub(N)", "index", idx,
                   "depth", rchild->depth);
        }
        cur = child;
        ref = rchild;
        // strings (first, last and one generated step only: base58 is quadratic)
        if (d == 0 || d + 1 == depth || (depth <= 8 && s.chance(64))) {
            const std::string sprv = EncodeExtKey(cur), spub = EncodeExtPubKey(child_pub);
            const CExtKey bprv = DecodeExtKey(sprv);
            const CExtPubKey bpub = DecodeExtPubKey(spub);
            st.steps += 2;
            VCHECK(bprv.key.IsValid() && bprv == cur, "c45.bip32-string", "xprv string round trip", sprv, kVer[net].name);
            VCHECK(bpub.pubkey.IsValid() && bpub == child_pub, "c45.bip32-string", "xpub string round trip", spub, kVer[net].name);
            Bytes raw;
            Bytes exp(kVer[net].xprv, kVer[net].xprv + 4);
            exp.insert(exp.end(), want.begin(), want.end());
            st.steps++;
            VCHECK(DecodeBase58Check(sprv, raw, 100) && raw == exp, "c45.bip32-string", "xprv payload != version || serialization", sprv, kVer[net].name);
            Bytes exp2(kVer[net].xpub, kVer[net].xpub + 4);
            const Bytes wpub = RefSer(*ref, false);
            exp2.insert(exp2.end(), wpub.begin(), wpub.end());
            st.steps++;
            VCHECK(DecodeBase58Check(spub, raw, 100) && raw == exp2, "c45.bip32-string", "xpub payload != version || serialization", spub, kVer[net].name);
            // a private string is not a public key and vice versa
            VCHECK(!DecodeExtPubKey(sprv).pubkey.IsValid() && !DecodeExtKey(spub).key.IsValid(), "c45.bip32-string", "xprv/xpub confusion", sprv);
            st.cls("string-roundtrip");
        }
    }
    SelectParams(ChainType::MAIN);
    if (n_h) st.cls("hardened-step");
    if (n_u) st.cls("unhardened-step");
    if (depth > 8) st.cls("deep");
    st.mix(uint64_t(depth));
    st.nontrivial = n_h >= 1 && n_u >= 1;
}
