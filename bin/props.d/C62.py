# C62: in-process address histories (E1) + crash images of the wallet directory (E3). Worker: bin/crashsim/c62_worker.py.
SPEC = {
    'level': 'fault_enumeration',
    'assumptions': [
        'descriptor wallets on SQLite (the only wallet kind this code base creates); addresses requested through GetNewDestination / GetNewChangeDestination / '
        'ReserveDestination+KeepDestination; a reservation that was returned (failed transaction creation) does not count as handed out',
        'crash fault model exactly as the statement: process kill = every recorded file operation before the cut applied; power loss = an ordered suffix of the '
        'not-yet-fsynced data writes dropped (optionally the first dropped write torn at a 512-byte boundary); metadata operations durable in order',
        'wallet workloads run with the production SQLite durability (synchronous=FULL, rollback journal, exclusive locking; -unsafesqlitesync is off); an address '
        'counts as returned when its MARK line (printed after the call returned) precedes the cut',
        'recorder validated on every workload: replaying the full trace on an empty directory must reproduce the real final wallet directory byte for byte, else the run is broken',
        'whether every crash image loads is C43\'s clause: an image that does not load is counted (class image-unloadable) but is not a C62 failure',
    ],
    'stages': [
        gen('vh_c62', 'c62_newaddr', 320, 6000, min_cases_quick=32, max_seconds_quick=300,
            floors={'restart': 0.25, 'address-after-restart': 0.2, 'encrypted': 0.25, 'keypool-exhausted': 0.02, 'reservation-returned': 0.15},
            rule='histories of new receive/change addresses of every output type, bursts, TopUpKeyPool, reserve+keep/return, payments to look-ahead addresses, lock/unlock, '
                 'encryption, hardened-range descriptors (keypool exhaustion + refill), clean unload/reload with other keypool sizes on an on-disk SQLite wallet; '
                 'non-trivial = >=1 restart, >=2 addresses after it, >=4 in total; distinct = op-kind sequence + wallet configuration'),
        custom('bin/crashsim/c62_worker.py', 96, 3200, name='c62_crash_images', needs=[('san', 'vh_c62')],
               min_cases_quick=8, floors={'cut-in-focus-window': 0.25, 'mode:kill': 0.4},
               hard_timeout_quick=2400, max_seconds_quick=300, max_seconds_thorough=5400,
               rule='1 recorded wallet workload per worker (6 in thorough); cut points after wallet creation, two thirds drawn from the windows around a returned address '
                    '(the cut right after MARK addr and the five file operations before it), each as a kill image plus, when unsynced writes exist, power-loss images; '
                    'the recovery process loads the image, hands out 24+ new addresses and compares with the addresses returned before the cut; non-trivial = image loads, '
                    '>=1 address before the cut and >=1 new address; distinct = (workload, cut index, mode)'),
    ],
}

META = {
    'engine': 'E1 choice-sequence driver (c62_newaddr) + E3 crash-image enumeration (strace recorder + image builder) driving the E1 recovery target',
    'level_text': 'Generated address-request histories on a real on-disk SQLite descriptor wallet: the multiset of all returned addresses (across clean restarts) has no '
                  'duplicate, and after a restart every descriptor continues above the highest index it handed out before (indices from the harness\' own expansion of the '
                  'descriptor strings). Crash clause by fault enumeration: recorded workloads with production durability, kill and dropped-unsynced-suffix images at '
                  'sampled cut points (dense around the moment an address is returned); the recovered wallet must never hand out an address returned before the cut. '
                  'Not exhaustive over histories or cut points.',
    'technique': 'stateful property-based testing (history invariant: no duplicate in the multiset of returned addresses) + fault injection by crash-image enumeration over recorded write/fsync traces',
    'level_note': 'ordered-metadata journal assumption; syscall-granularity cuts; strace-based recorder self-checked per workload; descriptor wallets only',
}
