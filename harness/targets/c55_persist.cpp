// C55 — Saving and reloading the mempool preserves it.
//
// Node A builds a pool history (submissions with mock-time gaps, replacements, prioritisation of pool entries AND of absent txids, unbroadcast marks),
// dumps it (DumpMempool; v2 obfuscated or v1), optionally a block is mined afterwards. The dump is parsed by the harness' OWN reader (own XOR
// de-obfuscation, structure walk) and must describe A's pool exactly (c55.dump-content).
// Then the (clean, truncated, bit-flipped, count-edited or trailing-bytes) file is loaded by LoadMempool into a FRESH node B on the same chain at a
// chosen load time, possibly with a non-empty pool P0; a second fresh node C ("twin") gets the same P0 and then the records the harness reader could
// parse from the same bytes, fed through NORMAL submission (PrioritiseTransaction of the saved delta, then ProcessTransaction) unless expired.
// Nodes cannot coexist in one process: A is destroyed before B, B before C.
// Oracles (B = loader, C = twin, saved = what the harness reader parsed from the bytes given to B):
//   c55.loaded-set          transaction set of B == transaction set of C (restores every unexpired saved tx that normal submission accepts; adds nothing
//                           normal submission rejects; existing entries only leave if normal submission of the same records removes them)
//   c55.existing-removed    generator keeps P0 conflict-free w.r.t. the clean records: for clean/truncated files every P0 entry is still in B
//   c55.time / c55.delta / c55.unbroadcast / c55.order   for transactions that entered B from the file: entry time == saved time, modified fee - fee == saved
//                           delta, unbroadcast flag == membership in the saved unbroadcast set (if that section was readable), entry sequence follows file order
//   c55.absent-deltas       saved deltas of txids that are not saved transactions are present in B's delta map (if the section was readable)
//   c55.clean-load-failed   a clean file loads with return value true
//   c55.truncated-reported  a truncated file (any proper prefix) makes LoadMempool return false
#include <engine/verif.h>
#include <kits/mempoolsim.h>

#include <node/mempool_persist.h>
#include <streams.h>
#include <util/fs.h>

#include <algorithm>
#include <fstream>
#include <map>
#include <set>

using namespace verif;

namespace {

struct SavedTx { CTransactionRef tx; int64_t time{0}; int64_t delta{0}; size_t off_tx{0}, off_time{0}, off_delta{0}; };

struct Parsed {
    uint64_t version{0};
    bool header_ok{false};     //!< version known (and v2 key readable)
    size_t header_len{0};      //!< bytes before the (possibly obfuscated) payload
    uint64_t count{0};
    std::vector<SavedTx> txs;  //!< records fully read (tx, time, delta)
    bool have_deltas{false};
    std::map<Txid, CAmount> deltas;
    bool have_unb{false};
    std::set<Txid> unb;
    bool complete{false};      //!< everything read without an exception
    size_t off_count{0}, off_map{0}, off_unb{0}, end{0}; //!< file offsets
};

uint64_t LE64(const std::vector<unsigned char>& v, size_t off)
{
    uint64_t x = 0;
    for (int i = 7; i >= 0; --i) x = (x << 8) | v[off + i];
    return x;
}

/** The harness' reader of the mempool.dat layout: u64 version | [v2: 0x08 + 8 key bytes] | payload (v2: byte at file offset i XOR key[i % 8]):
 *  u64 count | count x (tx with witness, i64 time, i64 delta) | map<txid, i64> | set<txid>. Stops at the first read error. */
Parsed OwnParse(const std::vector<unsigned char>& file)
{
    Parsed p;
    if (file.size() < 8) return p;
    p.version = LE64(file, 0);
    std::vector<unsigned char> plain;
    if (p.version == 1) {
        p.header_len = 8;
        plain.assign(file.begin() + 8, file.end());
    } else if (p.version == 2) {
        if (file.size() < 17 || file[8] != 8) return p;
        p.header_len = 17;
        plain.assign(file.begin() + 17, file.end());
        for (size_t i = 0; i < plain.size(); ++i) plain[i] ^= file[9 + ((17 + i) % 8)];
    } else {
        return p;
    }
    p.header_ok = true;
    DataStream ds{plain};
    const size_t total = plain.size();
    auto here = [&] { return p.header_len + (total - ds.size()); };
    try {
        p.off_count = here();
        ds >> p.count;
        for (uint64_t i = 0; i < p.count; ++i) {
            SavedTx r;
            r.off_tx = here();
            ds >> TX_WITH_WITNESS(r.tx);
            r.off_time = here();
            ds >> r.time;
            r.off_delta = here();
            ds >> r.delta;
            p.txs.push_back(r);
        }
        p.off_map = here();
        std::map<Txid, CAmount> m;
        ds >> m;
        p.deltas = m; p.have_deltas = true;
        p.off_unb = here();
        std::set<Txid> u;
        ds >> u;
        p.unb = u; p.have_unb = true;
        p.end = here();
        p.complete = true;
    } catch (const std::exception&) {
    }
    return p;
}

std::vector<unsigned char> ReadFile(const fs::path& p)
{
    std::ifstream f(fs::PathToString(p), std::ios::binary);
    return std::vector<unsigned char>((std::istreambuf_iterator<char>(f)), std::istreambuf_iterator<char>());
}
void WriteFile(const fs::path& p, const std::vector<unsigned char>& v)
{
    std::ofstream f(fs::PathToString(p), std::ios::binary | std::ios::trunc);
    f.write(reinterpret_cast<const char*>(v.data()), std::streamsize(v.size()));
}

struct NodeResult {
    PoolSnap snap;
    std::set<Txid> p0_in_pool;
    bool ret{false};
};

} // namespace

VERIF_TARGET(c55_persist, nullptr, 128, 1300,
             "node A: 5-16 operations (submit plain/chain/merge/TRUC/CPFP/conflicting transactions, mock-time gaps up to a third of the expiry, prioritise a pool entry or an absent "
             "txid, mark entries unbroadcast), dump (v2 obfuscated or v1 via -persistmempoolv1; expiry 336 h, 2 h or 1 h), optionally mine a block confirming/conflicting entries after "
             "the dump. The file is given clean, truncated (at a structural offset +-1 or anywhere), with one bit flipped (version, key, count, tx bytes, time, delta, map, set), with the "
             "count edited, or with trailing bytes, to a fresh node B at a load time that is the dump time, later, around the expiry boundary of a chosen entry (+-1 s) or beyond all; B "
             "may already hold a subset of the saved transactions and/or independent ones. A twin node C receives the same records through normal submission. non-trivial = >= 3 saved "
             "entries incl. a prioritised or unbroadcast one, some entry restored, and (some saved tx NOT restored [expired/confirmed/conflicted/unreadable] or a faulty file loaded "
             "into a non-empty pool); distinct = op kinds, fault kind/section, load-time mode, counts")
{
    // ---------------- configuration
    MempoolSimOpts o;
    const unsigned cfg_exp = s.range<unsigned>(0, 2);
    const bool v1 = s.chance(80);
    int64_t expiry = 336 * 3600;
    if (cfg_exp == 1) { o.extra_args.push_back("-mempoolexpiry=2"); expiry = 2 * 3600; }
    if (cfg_exp == 2) { o.extra_args.push_back("-mempoolexpiry=1"); expiry = 3600; }
    if (v1) o.extra_args.push_back("-persistmempoolv1=1");
    o.with_mempool_checks = false;
    st.mix(uint64_t(cfg_exp * 2 + v1));
    Note(st, "expiry=", expiry / 3600, "h v1=", v1);
    if (v1) st.cls("format:v1"); else st.cls("format:v2");

    // ---------------- node A
    auto a = std::make_unique<MempoolSim>(o);
    const uint256 funded_tip = a->TipHash();
    const int64_t start_now = a->Now();
    std::vector<Txid> absent_ids;
    std::vector<CTransactionRef> spare;
    const unsigned nops = s.range<unsigned>(5, 16);
    for (unsigned op = 0; op < nops && !s.exhausted(); ++op) {
        const unsigned kind = s.range<unsigned>(0, 11);
        st.mix(uint64_t(kind));
        if (kind <= 5) {
            static const GenKind kinds[] = {GenKind::PLAIN, GenKind::CHAIN, GenKind::CHAIN, GenKind::MERGE, GenKind::TRUC_PARENT, GenKind::TRUC_CHILD, GenKind::CPFP_PKG,
                                            GenKind::CONFLICT, GenKind::PLAIN};
            GenTx g = a->GenOfKind(s, kinds[s.index(std::size(kinds))]);
            if (!g.tx) continue;
            if (!g.package.empty()) { auto r = a->SubmitPackage(g.package); Note(st, "A pkg ", g.note, " -> ", PkgStateStr(r)); }
            else { auto r = a->Submit(g.tx); Note(st, "A tx ", GenKindName(g.kind), " -> ", TxStateStr(r)); }
            a->Sync();
        } else if (kind <= 7) {
            const int64_t dt = s.pick<int64_t>({1, 60, 600, 3000, expiry / 3, expiry / 7});
            a->AdvanceTime(dt);
            Note(st, "A time +", dt);
        } else if (kind == 8) {
            if (a->LastSnap().entries.empty()) continue;
            auto it = a->LastSnap().entries.begin();
            std::advance(it, s.index(a->LastSnap().entries.size()));
            const Txid who = it->first;
            const CAmount d = s.pick<CAmount>({1000, -500, 77777, 1, -1, 5000000});
            a->Prioritise(who, d);
            a->Sync();
            Note(st, "A prioritise entry ", who.ToString().substr(0, 8), " ", d);
        } else if (kind == 9) {
            // delta for a txid that is not in the pool: a spare (never submitted) transaction or an arbitrary id
            Txid who = Txid::FromUint256(uint256{uint8_t(s.range<unsigned>(1, 250))});
            if (s.boolean()) {
                GenTx g = a->GenOfKind(s, GenKind::PLAIN);
                if (g.tx) { spare.push_back(g.tx); who = g.tx->GetHash(); }
            }
            const CAmount d = s.pick<CAmount>({2500, -2500, 1, 9000000});
            a->Prioritise(who, d);
            absent_ids.push_back(who);
            a->Sync();
            Note(st, "A prioritise absent ", who.ToString().substr(0, 8), " ", d);
        } else if (kind == 10) {
            if (a->LastSnap().entries.empty()) continue;
            auto it = a->LastSnap().entries.begin();
            std::advance(it, s.index(a->LastSnap().entries.size()));
            const Txid who = it->first;
            a->pool().AddUnbroadcastTx(who);
            a->Sync();
            Note(st, "A unbroadcast ", who.ToString().substr(0, 8));
        } else {
            GenTx g = a->GenOfKind(s, GenKind::PLAIN); // spare, not submitted on A (candidate for B's pre-existing pool)
            if (g.tx) spare.push_back(g.tx);
        }
    }
    // finishing touches: make prioritised / unbroadcast / absent-delta state likely
    a->Sync();
    if (!a->LastSnap().entries.empty()) {
        if (s.chance(200)) {
            auto it = a->LastSnap().entries.begin();
            std::advance(it, s.index(a->LastSnap().entries.size()));
            const Txid who = it->first;
            const CAmount d = s.pick<CAmount>({333, -333, 123456});
            a->Prioritise(who, d);
            Note(st, "A prioritise entry ", who.ToString().substr(0, 8), " ", d);
        }
        if (s.chance(200)) {
            a->Sync();
            auto it = a->LastSnap().entries.begin();
            std::advance(it, s.index(a->LastSnap().entries.size()));
            const Txid who = it->first;
            a->pool().AddUnbroadcastTx(who);
            Note(st, "A unbroadcast ", who.ToString().substr(0, 8));
        }
    }
    if (s.chance(128)) {
        const Txid who = Txid::FromUint256(uint256{uint8_t(s.range<unsigned>(1, 250))});
        a->Prioritise(who, 4242);
        Note(st, "A prioritise absent ", who.ToString().substr(0, 8), " 4242");
    }
    const PoolSnap sa = a->Sync();
    const int64_t dump_now = a->Now();
    const fs::path dump_path = a->sim().m_path_root / "vh_mempool_a.dat";
    const bool dumped = node::DumpMempool(a->pool(), dump_path, fsbridge::fopen, /*skip_file_commit=*/true);
    VCHECK(dumped, "c55.dump-content", "DumpMempool returned false");
    const std::vector<unsigned char> clean = ReadFile(dump_path);
    const Parsed pc = OwnParse(clean);
    st.steps++;
    // ---- dump faithfulness
    VCHECK(pc.complete && pc.end == clean.size(), "c55.dump-content", "the harness reader cannot read the dump completely: header_ok", pc.header_ok, "records", pc.txs.size(), "of", pc.count,
           "size", clean.size());
    VCHECK(pc.version == (v1 ? 1u : 2u), "c55.dump-content", "dump version", pc.version);
    VCHECK(pc.txs.size() == sa.order.size(), "c55.dump-content", "dump holds", pc.txs.size(), "transactions, pool has", sa.order.size());
    {
        std::map<Txid, CAmount> want_absent = sa.deltas;
        for (size_t i = 0; i < pc.txs.size(); ++i) {
            const Txid id = pc.txs[i].tx->GetHash();
            VCHECK(id == sa.order[i], "c55.dump-content", "record", i, "is", id.ToString(), "but the pool's order has", sa.order[i].ToString());
            const auto& e = sa.entries.at(id);
            VCHECK(pc.txs[i].tx->GetWitnessHash() == e.tx->GetWitnessHash(), "c55.dump-content", "record", i, "has another witness than the pool entry");
            VCHECK(pc.txs[i].time == e.time, "c55.dump-content", "record", i, "time", pc.txs[i].time, "entry time", e.time);
            VCHECK(pc.txs[i].delta == e.modified_fee - e.fee, "c55.dump-content", "record", i, "delta", pc.txs[i].delta, "entry delta", e.modified_fee - e.fee);
            want_absent.erase(id);
        }
        VCHECK(pc.deltas == want_absent, "c55.dump-content", "delta section has", pc.deltas.size(), "entries, pool has", want_absent.size(), "deltas of absent transactions");
        VCHECK(pc.unb == sa.unbroadcast, "c55.dump-content", "unbroadcast section has", pc.unb.size(), "ids, pool has", sa.unbroadcast.size());
    }
    bool has_prio = false, has_unb = !sa.unbroadcast.empty();
    for (const auto& r : pc.txs) if (r.delta != 0) has_prio = true;
    if (has_prio) st.cls("saved:prioritised-entry");
    if (has_unb) st.cls("saved:unbroadcast-entry");
    if (!pc.deltas.empty()) st.cls("saved:absent-delta");
    if (pc.txs.size() >= 3) st.cls("saved>=3");
    if (pc.txs.size() >= 8) st.cls("saved>=8");
    st.mix(uint64_t(pc.txs.size()));

    // ---- optional block after the dump
    std::vector<std::shared_ptr<const CBlock>> extra_blocks;
    if (s.chance(70) && !sa.entries.empty()) {
        std::set<Txid> subset;
        for (const auto& [id, e] : sa.entries) if (s.chance(90)) subset.insert(id);
        std::vector<CTransactionRef> extra;
        if (s.boolean()) if (auto t = a->GenBlockOnlyTx(s, /*conflict_with_pool=*/true)) extra.push_back(t);
        auto m = a->MineFromPool(subset, extra);
        if (m.became_tip) {
            extra_blocks.push_back(m.block);
            st.cls("block-after-dump");
            Note(st, "A block after dump: ", m.block->vtx.size() - 1, " txs");
        }
    }
    const int64_t a_end_now = std::max(a->Now(), dump_now);
    a.reset();

    // ---------------- the file given to B
    std::vector<unsigned char> file = clean;
    const unsigned fault = s.range<unsigned>(0, 9);
    std::string fault_name = "clean";
    bool pure_truncation = false;
    if (fault == 4 || fault == 5) { // truncation
        std::vector<size_t> offs{0, 7, 8, pc.header_len, pc.off_count + 8, pc.off_map, pc.off_unb, clean.size() - 1};
        for (const auto& r : pc.txs) { offs.push_back(r.off_tx); offs.push_back(r.off_time); offs.push_back(r.off_delta); offs.push_back(r.off_delta + 8); }
        size_t at = fault == 4 ? offs[s.index(offs.size())] + size_t(s.range<int>(0, 2)) : s.range<size_t>(0, clean.size() - 1);
        if (at >= clean.size()) at = clean.size() - 1;
        file.resize(at);
        pure_truncation = true;
        fault_name = "truncate";
        if (at >= pc.off_map && at < pc.off_unb) fault_name = "truncate:in-delta-map";
        else if (at >= pc.off_unb) fault_name = "truncate:in-unbroadcast-set";
        else if (at < pc.off_count + 8) fault_name = "truncate:in-header";
        else fault_name = "truncate:in-records";
    } else if (fault == 6 || fault == 7) { // one bit flipped
        const unsigned region = s.range<unsigned>(0, 7);
        size_t lo = 0, hi = clean.size();
        const char* rn = "any";
        const SavedTx* rec = pc.txs.empty() ? nullptr : &pc.txs[s.index(pc.txs.size())];
        switch (region) {
        case 0: lo = 0; hi = 8; rn = "version"; break;
        case 1: lo = 8; hi = pc.header_len; rn = "key"; if (hi <= lo) { lo = 0; hi = 8; rn = "version"; } break;
        case 2: lo = pc.off_count; hi = pc.off_count + 8; rn = "count"; break;
        case 3: if (rec) { lo = rec->off_tx; hi = rec->off_time; rn = "tx"; } break;
        case 4: if (rec) { lo = rec->off_time; hi = rec->off_delta; rn = "time"; } break;
        case 5: if (rec) { lo = rec->off_delta; hi = rec->off_delta + 8; rn = "delta"; } break;
        case 6: lo = pc.off_map; hi = pc.off_unb; rn = "delta-map"; break;
        default: lo = pc.off_unb; hi = clean.size(); rn = "unbroadcast-set"; break;
        }
        if (hi <= lo) { lo = 0; hi = clean.size(); rn = "any"; }
        const size_t at = lo + s.index(hi - lo);
        file[at] ^= uint8_t(1u << s.range<unsigned>(0, 7));
        fault_name = std::string("flip:") + rn;
    } else if (fault == 8) { // count edited by +-1 (plaintext edit, re-obfuscated)
        const uint64_t nc = s.boolean() ? pc.count + 1 : (pc.count > 0 ? pc.count - 1 : 1);
        for (int i = 0; i < 8; ++i) {
            unsigned char b = uint8_t(nc >> (8 * i));
            const size_t pos = pc.off_count + i;
            if (pc.version == 2) b ^= clean[9 + (pos % 8)];
            file[pos] = b;
        }
        fault_name = nc > pc.count ? "count+1" : "count-1";
    } else if (fault == 9) {
        const auto extra = s.bytes(s.range<size_t>(1, 16));
        file.insert(file.end(), extra.begin(), extra.end());
        if (extra.empty()) file.push_back(0);
        fault_name = "trailing-bytes";
    }
    st.cls("fault:" + fault_name);
    st.mix(fault_name);
    const Parsed pf = OwnParse(file);

    // ---------------- load time
    const unsigned tmode = s.range<unsigned>(0, 5);
    int64_t load_now = a_end_now + 10;
    const char* tname = "at-dump-time";
    if (tmode == 1) { load_now = a_end_now + s.pick<int64_t>({600, 7200, expiry / 2}); tname = "later"; }
    if ((tmode == 2 || tmode == 3) && !pc.txs.empty()) {
        const SavedTx& r = pc.txs[s.index(pc.txs.size())];
        const int64_t t = r.time + expiry + (tmode == 2 ? -1 : +1); // -1: the entry is 1 s younger than the expiry; +1: 1 s older
        if (t > a_end_now) { load_now = t; tname = tmode == 2 ? "entry-just-unexpired" : "entry-just-expired"; }
    }
    if (tmode == 4) { load_now = a_end_now + expiry + 100; tname = "all-expired"; }
    st.cls(std::string("load-time:") + tname);
    st.mix(std::string(tname));
    // a record whose time equals now - expiry exactly is expired for the loader (strict comparison) but not yet for CTxMemPool::Expire: avoid the tie
    bool tie = true;
    while (tie) { tie = false; for (const auto& r : pf.txs) if (r.time == load_now - expiry) { load_now += 1; tie = true; } }

    // ---------------- pre-existing pool of B and C
    std::vector<CTransactionRef> p0;
    const unsigned pmode = s.range<unsigned>(0, 5);
    if (pmode == 2 || pmode == 4) { // a prefix-closed part of the saved transactions (saved order is topological)
        const size_t n = pc.txs.empty() ? 0 : s.range<size_t>(1, pc.txs.size());
        for (size_t i = 0; i < n; ++i) p0.push_back(pc.txs[i].tx);
    }
    if (pmode == 3 || pmode == 4) for (const auto& t : spare) p0.push_back(t);
    if (pmode == 5 && !spare.empty()) p0.push_back(spare[0]);
    if (!p0.empty()) st.cls("non-empty-pool-before-load");
    st.mix(uint64_t(pmode));

    auto setup = [&](MempoolSim& n) {
        VCHECK(n.TipHash() == funded_tip, "c55.harness", "fresh node does not reproduce the base chain");
        for (const auto& b : extra_blocks) {
            n.sim().Register(b);
            if (int64_t(b->nTime) > n.Now()) n.AdvanceTime(int64_t(b->nTime) - n.Now());
            auto d = n.sim().Deliver(b);
            VCHECK(d.processed && n.TipHash() == b->GetHash(), "c55.harness", "fresh node rejects A's block");
        }
        (void)start_now;
        if (load_now > n.Now()) n.AdvanceTime(load_now - n.Now());
        std::set<Txid> in;
        for (const auto& t : p0) { auto r = n.Submit(t); if (r.m_result_type == MempoolAcceptResult::ResultType::VALID) in.insert(t->GetHash()); }
        n.Sync();
        return in;
    };

    // ---------------- node B: the loader
    NodeResult rb;
    {
        auto b = std::make_unique<MempoolSim>(o);
        rb.p0_in_pool = setup(*b);
        const fs::path p = b->sim().m_path_root / "vh_mempool_b.dat";
        WriteFile(p, file);
        rb.ret = node::LoadMempool(b->pool(), p, b->sim().chainstate(), node::ImportMempoolOptions{});
        rb.snap = b->Sync();
        b.reset();
    }
    // ---------------- node C: the twin (normal submission of the readable records)
    NodeResult rc;
    {
        auto c = std::make_unique<MempoolSim>(o);
        rc.p0_in_pool = setup(*c);
        if (pf.header_ok) {
            for (const auto& r : pf.txs) {
                if (r.delta != 0) c->Prioritise(r.tx->GetHash(), r.delta);
                if (r.time > load_now - expiry) c->Submit(r.tx);
            }
        }
        rc.snap = c->Sync();
        c.reset();
    }
    st.steps++;
    Note(st, "file ", fault_name, " size ", file.size(), "/", clean.size(), " readable records ", pf.txs.size(), "/", pc.txs.size(), " load ", tname, " p0=", rb.p0_in_pool.size(),
         " -> ret=", rb.ret, " B pool=", rb.snap.entries.size(), " twin pool=", rc.snap.entries.size());
    VCHECK(rb.p0_in_pool == rc.p0_in_pool, "c55.harness", "pre-existing pools differ between loader and twin");

    // ---------------- verdicts
    std::set<Txid> b_ids, c_ids;
    for (const auto& [id, e] : rb.snap.entries) b_ids.insert(id);
    for (const auto& [id, e] : rc.snap.entries) c_ids.insert(id);
    if (b_ids != c_ids) {
        std::string diff;
        for (const auto& id : c_ids) if (!b_ids.count(id)) { diff = "normal submission accepts " + id.ToString() + " but the loaded pool lacks it"; break; }
        if (diff.empty()) for (const auto& id : b_ids) if (!c_ids.count(id)) { diff = "loaded pool holds " + id.ToString() + " which normal submission does not produce"; break; }
        VCHECK(false, "c55.loaded-set", diff, "fault", fault_name, "load", tname, "B", b_ids.size(), "twin", c_ids.size(), "records", pf.txs.size());
    }
    const bool clean_records = fault_name == "clean" || pure_truncation || fault_name == "trailing-bytes";
    // the strict clause needs a pre-existing pool that does not compete with the saved transactions for an outpoint (else normal submission itself replaces entries)
    bool p0_conflict_free = true;
    {
        std::map<COutPoint, Txid> spent_by_p0;
        for (const auto& t : p0) for (const auto& in : t->vin) spent_by_p0[in.prevout] = t->GetHash();
        for (const auto& r : pc.txs) for (const auto& in : r.tx->vin) { auto it = spent_by_p0.find(in.prevout); if (it != spent_by_p0.end() && it->second != r.tx->GetHash()) p0_conflict_free = false; }
    }
    if (!p0_conflict_free) st.cls("pre-existing-pool-conflicts-with-saved");
    if (clean_records && p0_conflict_free) for (const auto& id : rb.p0_in_pool) VCHECK(b_ids.count(id), "c55.existing-removed", "pre-existing entry", id.ToString(), "disappeared while loading a", fault_name, "file");
    if (fault_name == "clean") VCHECK(rb.ret, "c55.clean-load-failed", "LoadMempool returned false for an undamaged file");
    if (pure_truncation) VCHECK(!rb.ret, "c55.truncated-reported", "LoadMempool returned true for a file truncated to", file.size(), "of", clean.size(), "bytes");
    if (!rb.ret) st.cls("load-reported-failure"); else st.cls("load-reported-success");
    // per-entry restoration
    unsigned restored = 0, not_restored = 0;
    uint64_t last_seq = 0;
    bool have_last = false;
    std::map<Txid, CAmount> rec_delta; // sum of the deltas the records carry per txid
    std::set<Txid> rec_ids;
    for (const auto& r : pf.txs) { rec_delta[r.tx->GetHash()] += r.delta; rec_ids.insert(r.tx->GetHash()); }
    std::set<Txid> seen;
    for (const auto& r : pf.txs) {
        const Txid id = r.tx->GetHash();
        if (!seen.insert(id).second) continue; // a flipped file may repeat a txid: judge the first record only
        auto it = rb.snap.entries.find(id);
        if (it == rb.snap.entries.end() || rb.p0_in_pool.count(id) || it->second.tx->GetWitnessHash() != r.tx->GetWitnessHash()) { if (it == rb.snap.entries.end()) not_restored++; continue; }
        restored++;
        st.steps++;
        const auto& e = it->second;
        VCHECK(e.time == r.time, "c55.time", "restored entry", id.ToString(), "has time", e.time, "saved", r.time, "load time", load_now);
        CAmount want = rec_delta[id];
        if (pf.have_deltas) { auto d = pf.deltas.find(id); if (d != pf.deltas.end()) want += d->second; }
        VCHECK(e.modified_fee - e.fee == want, "c55.delta", "restored entry", id.ToString(), "has fee delta", e.modified_fee - e.fee, "saved", want);
        if (pf.have_unb) VCHECK((rb.snap.unbroadcast.count(id) > 0) == (pf.unb.count(id) > 0), "c55.unbroadcast", "restored entry", id.ToString(), "unbroadcast flag",
                                rb.snap.unbroadcast.count(id), "saved", pf.unb.count(id));
        if (have_last) VCHECK(e.sequence >= last_seq, "c55.order", "restored entry", id.ToString(), "entered before an earlier record (sequence", e.sequence, "<", last_seq, ")");
        last_seq = e.sequence; have_last = true;
    }
    if (pf.have_deltas) {
        for (const auto& [id, d] : pf.deltas) {
            if (rec_ids.count(id) || rb.p0_in_pool.count(id)) continue;
            st.steps++;
            auto it = rb.snap.deltas.find(id);
            VCHECK(it != rb.snap.deltas.end() && it->second == d, "c55.absent-deltas", "saved delta", d, "of absent transaction", id.ToString(), "not restored (pool has",
                   it == rb.snap.deltas.end() ? 0 : it->second, ")");
        }
        if (!pf.deltas.empty()) st.cls("absent-deltas-checked");
    }
    if (restored) st.cls("restored-some");
    if (not_restored) st.cls("some-saved-not-restored");
    if (restored && not_restored) st.cls("restored-partially");
    if (fault_name != "clean" && restored && !rb.p0_in_pool.empty()) st.cls("faulty-partial-load-into-non-empty-pool");
    if (fault_name == "clean" && restored == pc.txs.size() && restored > 0) st.cls("clean-full-restore");
    st.mix(uint64_t(restored)); st.mix(uint64_t(not_restored));
    st.nontrivial = pc.txs.size() >= 3 && (has_prio || has_unb) && restored > 0 && (not_restored > 0 || (fault_name != "clean" && !rb.p0_in_pool.empty()));
}
