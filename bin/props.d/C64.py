# C64: stage list (what ./check C64 quick|thorough runs) and manifest text. Helpers gen()/enum()/hyp()/custom() come from props.py.
SPEC = {'level': 'exploration',
 'assumptions': ['in-process regtest node (ChainSim + NetSim); attackers and honest peers relay by wtxid, plus optionally one honest txid-relay (pre-BIP339) peer; honest peers answer every getdata for what they announced at once; attackers never '
                 'announce the genuine wtxid themselves (a stalled request for it would be stalling, not malleation)',
                 'bounded liveness: the genuine tx must be in the mempool within 12 s + 64 s per attacker after the honest announcement (request delays 2 s + 2 s, one '
                 '60 s request expiry per attacker that may hold the same request)',
                 'closing modes: A = honest wtxid announcement (always asserted); A2 = txid announcement by the honest txid-relay peer and B = fetch as missing parent of an '
                 'announced child are asserted only if no same-txid copy was ever delivered while the parent was unknown (copy stored as orphan): for that state the '
                 'unchanged code has two accepted genuine low-severity defects (known_findings.txt), asserted by the deterministic probe stage c64_stripped_orphan',
                 'a failure is re-run under 3 other RNG salts (rolling bloom filters) and only counts if it reproduces in all of them'],
 'stages': [gen('vh_c64', 'c64_malleated', 400, 8000, min_cases_quick=150, max_seconds_quick=1800, max_seconds_thorough=2400,
                floors={'variant-before-genuine': 0.5, 'variant-as-orphan': 0.1, 'closing-mode-A': 0.3, 'closing-mode-B': 0.06, 'closing-mode-A2': 0.03, 'variant-delivered:stripped': 0.08,
                        'block': 0.2, 'genuine-served-on-request': 0.5},
                rule='announcement/delivery histories of genuine tx and same-txid variants; non-trivial = variant seen before the genuine tx, which is then fetched and accepted'),
            gen('vh_c64', 'up_txdownloadman', 3000, 60000, min_cases_quick=800, rule='upstream fuzz target txdownloadman (supplementary)'),
            gen('vh_c64', 'up_txdownloadman_impl', 3000, 60000, min_cases_quick=800, rule='upstream fuzz target txdownloadman_impl (supplementary)'),
            # deterministic 4-scenario probe of the accepted genuine low-severity defect (known_findings.txt): control, invalid-witness orphan copy,
            # witness-stripped orphan copy (KNOWN-FINDING), orphan copy during a pending by-txid request (KNOWN-FINDING)
            enum('vh_c64', 'c64_stripped_orphan', rule='probe: same-txid copy stored as an orphan vs by-txid fetch of the genuine tx (known findings)')]}

META = {'level_text': 'Generated histories in which attacking wtxid-relay peers announce, deliver or answer with same-txid variants of a valid transaction (stripped, invalid, '
               'non-standard witness; also as orphans while the parent is unknown), stall or disconnect, with blocks and reorgs resetting the filters; then an honest '
               'peer announces the genuine transaction by wtxid, or by txid (legacy peer), or announces its child (genuine tx fetched as missing parent), and it must be '
               'requested, validated and enter the mempool within the scheduling bound. A 4-scenario deterministic probe documents two known findings of the txid-keyed paths. End-to-end through PeerManager, TxDownloadManager, orphanage and the real mempool. Exploration.',
 'technique': 'stateful property-based testing with a bounded-liveness oracle and re-salted reproduction of suspected violations'}
