// C45 (descriptor part) -- any descriptor the parser accepts prints to canonical public / private strings that parse back to
// descriptors with the same canonical strings and the same scripts at every derivation index; the checksum detects any
// single-character error.
//
// Generated: descriptor strings from a grammar (pk/pkh/wpkh/combo/multi/sortedmulti/sh/wsh/tr/rawtr/addr/raw/unused, sh(wsh()),
// tr() trees, multi_a/sortedmulti_a, miniscript templates, musig()) over key expressions (compressed/uncompressed/x-only hex, WIF,
// xpub/xprv with paths, `'`/`h` hardened markers (also mixed), origins, `/*`, `/*'`, `/*h`, multipath `<a;b;..>`).
// The generator aims at valid descriptors but does not guarantee validity: the oracles apply to ACCEPTED descriptors only.
//
// Oracles (all from the statement; nothing is compared with a second call of the same function on the same input):
//  c45.checksum-ref      the checksum printed by ToString()/accepted by Parse() is the BIP-380 checksum computed by an own
//                        implementation written from BIP-380 (self-tested on the BIP's vector at start-up)
//  c45.pub-reparse       Parse(ToString()) succeeds with exactly one descriptor
//  c45.pub-fixpoint      ... whose ToString() is the same string; its private string under the original keys is the same too
//  c45.priv-reparse / c45.priv-fixpoint   the same for ToPrivateString() (when it reports private keys): the re-parsed descriptor
//                        prints the same public and the same private string (with the keys IT extracted)
//  c45.scripts-pub       Expand(pos) of the re-parsed public string == Expand(pos) of the original, with no keys and with the
//                        original keys (success flag and scripts), pos in {0, 1, 2^31-1}
//  c45.scripts-priv      Expand(pos) of the re-parsed private string with its own keys == original with the original keys
//  c45.single-char       every single-character substitution (body, '#', checksum) of the canonical strings and of the input
//                        string with checksum is rejected by Parse(require_checksum=true)
#include <engine/verif.h>

#include <chainparams.h>
#include <hash.h>
#include <key.h>
#include <key_io.h>
#include <pubkey.h>
#include <script/descriptor.h>
#include <script/signingprovider.h>
#include <util/chaintype.h>
#include <util/strencodings.h>

#include <array>
#include <cassert>
#include <cstring>
#include <memory>
#include <set>
#include <string>
#include <vector>

namespace {

// ------------------------------------------------------------------------------------------------ BIP-380 checksum, own version
// Written from BIP-380 ("Checksum" section, reference Python). The character set is stated as three groups of 32.
const char* const kGroup[3] = {
    "0123456789()[],'/*abcdefgh@:$%{}",
    "IJKLMNOPQRSTUVWXYZ&+-.;<=>?!^_|~",
    "ijklmnopqrstuvwxyzABCDEFGH`#\"\\ ",
};
const char* const kCkAlphabet = "qpzry9x8gf2tvdw0s3jn54khce6mua7l";

bool CharClass(char ch, int& low, int& group)
{
    for (int g = 0; g < 3; ++g) {
        for (int i = 0; i < 32; ++i) {
            if (kGroup[g][i] == ch) { low = i; group = g; return true; }
        }
    }
    return false;
}

uint64_t RefPolymod(const std::vector<int>& symbols)
{
    static const uint64_t GEN[5] = {0xf5dee51989ULL, 0xa9fdca3312ULL, 0x1bab10e32dULL, 0x3706b1677aULL, 0x644d626ffdULL};
    uint64_t chk = 1;
    for (int v : symbols) {
        uint64_t top = chk >> 35;
        chk = ((chk & 0x7ffffffffULL) << 5) ^ uint64_t(v);
        for (int i = 0; i < 5; ++i) {
            if ((top >> i) & 1) chk ^= GEN[i];
        }
    }
    return chk;
}

/** BIP-380 descsum_create without the body; empty string if a character is outside the input character set. */
std::string RefChecksum(const std::string& body)
{
    std::vector<int> symbols, groups;
    for (char ch : body) {
        int low, grp;
        if (!CharClass(ch, low, grp)) return "";
        symbols.push_back(low);
        groups.push_back(grp);
        if (groups.size() == 3) {
            symbols.push_back(groups[0] * 9 + groups[1] * 3 + groups[2]);
            groups.clear();
        }
    }
    if (groups.size() == 1) symbols.push_back(groups[0]);
    if (groups.size() == 2) symbols.push_back(groups[0] * 3 + groups[1]);
    for (int i = 0; i < 8; ++i) symbols.push_back(0);
    uint64_t c = RefPolymod(symbols) ^ 1;
    std::string out;
    for (int i = 0; i < 8; ++i) out.push_back(kCkAlphabet[(c >> (5 * (7 - i))) & 31]);
    return out;
}

// ------------------------------------------------------------------------------------------------ key material (fixed pool)
struct PoolKey {
    std::string hex_c, hex_u, hex_x, wif_c, wif_u;
};
struct PoolXKey {
    std::string xpub, xprv;
};
struct Pool {
    std::unique_ptr<ECC_Context> ecc;
    std::vector<PoolKey> keys;
    std::vector<PoolXKey> xkeys;
    std::vector<std::string> addrs;
};
Pool g;

void init_c45_desc()
{
    if (g.ecc) return;
    g.ecc = std::make_unique<ECC_Context>();
    SelectParams(ChainType::MAIN);
    // BIP-380 test vector for the checksum reference
    if (RefChecksum("raw(deadbeef)") != "89f8spxm") {
        fprintf(stderr, "c45: own BIP-380 checksum fails its self-test\n");
        abort();
    }
    for (int i = 0; i < 64; ++i) {
        unsigned char seed[32];
        std::string tag = "verif-c45-key-" + std::to_string(i);
        CSHA256().Write(reinterpret_cast<const unsigned char*>(tag.data()), tag.size()).Finalize(seed);
        CKey kc, ku;
        kc.Set(seed, seed + 32, true);
        ku.Set(seed, seed + 32, false);
        assert(kc.IsValid());
        PoolKey pk;
        pk.hex_c = HexStr(kc.GetPubKey());
        pk.hex_u = HexStr(ku.GetPubKey());
        pk.hex_x = pk.hex_c.substr(2);
        pk.wif_c = EncodeSecret(kc);
        pk.wif_u = EncodeSecret(ku);
        g.keys.push_back(pk);
    }
    for (int i = 0; i < 24; ++i) {
        unsigned char seed[32];
        std::string tag = "verif-c45-xkey-" + std::to_string(i);
        CSHA256().Write(reinterpret_cast<const unsigned char*>(tag.data()), tag.size()).Finalize(seed);
        CExtKey x;
        x.SetSeed(MakeByteSpan(seed));
        // some extended keys are not masters: depth/fingerprint/child number non-zero
        const uint32_t steps[3] = {0x80000000u + 44u, uint32_t(i), 0xffffffffu};
        for (int d = 0; d < i % 4; ++d) {
            CExtKey c;
            if (x.Derive(c, steps[d])) x = c;
        }
        g.xkeys.push_back({EncodeExtPubKey(x.Neuter()), EncodeExtKey(x)});
    }
    // addresses for addr(): one per destination type
    const PoolKey& k0 = g.keys[0];
    CPubKey p0{ParseHex(k0.hex_c)};
    g.addrs.push_back(EncodeDestination(PKHash(p0)));
    g.addrs.push_back(EncodeDestination(ScriptHash(CScript() << OP_TRUE)));
    g.addrs.push_back(EncodeDestination(WitnessV0KeyHash(p0)));
    g.addrs.push_back(EncodeDestination(WitnessV0ScriptHash(CScript() << OP_TRUE)));
    g.addrs.push_back(EncodeDestination(WitnessV1Taproot(XOnlyPubKey(p0))));
    g.addrs.push_back(EncodeDestination(WitnessUnknown(2, std::vector<unsigned char>(20, 0x42))));
    g.addrs.push_back(EncodeDestination(PayToAnchor()));
}

// ------------------------------------------------------------------------------------------------ generator
enum class Ctx { TOP, P2SH, P2WPKH, P2WSH, P2TR, MUSIG };

struct Gen {
    verif::Src& s;
    verif::Stats& st;
    std::vector<int> free_keys;   // pool indices not yet used (miniscript forbids duplicate keys)
    std::vector<int> free_xkeys;
    int mp_len{0};                // number of items of every multipath specifier in this descriptor (0: none used so far)
    int marker_mode{0};           // 0: h   1: '   2: mixed
    bool has_priv{false}, has_hardened{false}, has_range{false}, has_origin{false}, has_multipath{false};
    int n_keys{0};

    Gen(verif::Src& s_, verif::Stats& st_) : s(s_), st(st_)
    {
        for (int i = 0; i < int(g.keys.size()); ++i) free_keys.push_back(i);
        for (int i = 0; i < int(g.xkeys.size()); ++i) free_xkeys.push_back(i);
        marker_mode = s.range<int>(0, 2);
    }

    int take(std::vector<int>& v)
    {
        if (v.empty()) return 0;
        size_t i = s.index(v.size());
        int r = v[i];
        v.erase(v.begin() + i);
        return r;
    }

    std::string marker()
    {
        has_hardened = true;
        if (marker_mode == 0) return "h";
        if (marker_mode == 1) return "'";
        return s.boolean() ? "'" : "h";
    }

    uint32_t index31()
    {
        switch (s.range<int>(0, 5)) {
        case 0: return 0;
        case 1: return 1;
        case 2: return 0x7fffffffu;
        case 3: return s.range<uint32_t>(0, 100);
        case 4: return 0x7ffffffeu;
        default: return s.range<uint32_t>(0, 0x7fffffffu);
        }
    }

    std::string elem(bool allow_hardened)
    {
        std::string r = std::to_string(index31());
        if (allow_hardened && s.chance(80)) r += marker();
        return r;
    }

    std::string path(bool allow_multipath, bool allow_hardened, int max_len)
    {
        std::string r;
        int n = s.range<int>(0, max_len);
        int mp_at = (allow_multipath && n > 0 && s.chance(50)) ? s.range<int>(0, n - 1) : -1;
        for (int i = 0; i < n; ++i) {
            r += "/";
            if (i == mp_at) {
                if (mp_len == 0) mp_len = s.range<int>(2, 4);
                has_multipath = true;
                std::set<uint32_t> seen;
                r += "<";
                for (int j = 0; j < mp_len; ++j) {
                    uint32_t v = index31();
                    bool hard = allow_hardened && s.chance(40);
                    while (seen.count(v | (hard ? 0x80000000u : 0))) v = (v + 1) & 0x7fffffffu;
                    seen.insert(v | (hard ? 0x80000000u : 0));
                    if (j) r += ";";
                    r += std::to_string(v);
                    if (hard) r += marker();
                }
                r += ">";
            } else {
                r += elem(allow_hardened);
            }
        }
        return r;
    }

    std::string origin()
    {
        has_origin = true;
        static const char* hexd = "0123456789abcdefABCDEF";
        std::string r = "[";
        bool upper = s.chance(20);
        for (int i = 0; i < 8; ++i) r.push_back(hexd[s.index(upper ? 22 : 16)]);
        r += path(false, true, s.chance(30) ? 8 : 3);
        return r + "]";
    }

    std::string xkey(Ctx ctx, bool force_pub)
    {
        const PoolXKey& x = g.xkeys[take(free_xkeys)];
        bool priv = !force_pub && s.chance(110);
        if (priv) has_priv = true;
        std::string r = priv ? x.xprv : x.xpub;
        r += path(true, true, s.chance(24) ? 8 : 3);
        switch (s.range<int>(0, 3)) {
        case 0: break;
        case 1:
        case 2: r += "/*"; has_range = true; break;
        default: r += "/*" + marker(); has_range = true; break;
        }
        return r;
    }

    std::string key(Ctx ctx)
    {
        ++n_keys;
        std::string r;
        if (ctx != Ctx::MUSIG && s.chance(60)) r = origin();
        int kind = s.range<int>(0, 9);
        const bool uncompressed_ok = ctx == Ctx::TOP || ctx == Ctx::P2SH;
        switch (kind) {
        case 0:
        case 1: r += g.keys[take(free_keys)].hex_c; st.cls("key:hex"); break;
        case 2: r += g.keys[take(free_keys)].wif_c; has_priv = true; st.cls("key:wif"); break;
        case 3:
        case 4: r += xkey(ctx, true); st.cls("key:xpub"); break;
        case 5:
        case 6: r += xkey(ctx, false); st.cls("key:xkey"); break;
        case 7:
            if (ctx == Ctx::P2TR || ctx == Ctx::MUSIG) { r += g.keys[take(free_keys)].hex_x; st.cls("key:xonly"); }
            else { r += g.keys[take(free_keys)].hex_c; st.cls("key:hex"); }
            break;
        case 8:
            // uncompressed keys are only valid at top level / in sh(): elsewhere mostly avoided (rare negative case)
            if (uncompressed_ok || s.chance(10)) {
                if (s.boolean()) { r += g.keys[take(free_keys)].hex_u; } else { r += g.keys[take(free_keys)].wif_u; has_priv = true; }
                st.cls("key:uncompressed");
            } else {
                r += g.keys[take(free_keys)].hex_c; st.cls("key:hex");
            }
            break;
        default:
            if (ctx == Ctx::P2TR && s.chance(128)) {
                // musig(K,K,...)[/path][/*]
                st.cls("key:musig");
                std::string m = "musig(";
                int n = s.range<int>(1, 4);
                bool all_x = s.boolean();   // derivation after musig() requires all participants to be unranged xpubs
                bool before_range = has_range;
                std::string parts;
                for (int i = 0; i < n; ++i) {
                    if (i) parts += ",";
                    if (all_x) {
                        const PoolXKey& x = g.xkeys[take(free_xkeys)];
                        bool priv = s.chance(80);
                        if (priv) has_priv = true;
                        parts += (priv ? x.xprv : x.xpub) + path(false, true, 2);
                    } else {
                        parts += key(Ctx::MUSIG);
                    }
                }
                m += parts + ")";
                if (all_x) {
                    m += path(true, false, 2);
                    if (s.boolean()) { m += "/*"; has_range = true; }
                } else {
                    (void)before_range;
                }
                return m;   // no origin in front of musig()
            }
            r += g.keys[take(free_keys)].hex_c; st.cls("key:hex");
            break;
        }
        return r;
    }

    std::string hexbytes(int n)
    {
        std::string r;
        static const char* hexd = "0123456789abcdef";
        for (int i = 0; i < 2 * n; ++i) r.push_back(hexd[s.index(16)]);
        return r;
    }

    std::string multi(Ctx ctx, const char* name, int max_keys)
    {
        int n = s.range<int>(1, max_keys);
        if (s.chance(6)) n = max_keys + 1;   // negative case
        int k = s.range<int>(1, std::max(1, n));
        if (s.chance(6)) k = s.boolean() ? 0 : n + 1;
        std::string r = std::string(name) + "(" + std::to_string(k);
        for (int i = 0; i < n; ++i) r += "," + key(ctx);
        st.mix(uint64_t(n) * 64 + k);
        return r + ")";
    }

    std::string older() { return std::to_string(s.pick<uint32_t>({1, 2, 144, 65535, 4194303, s.range<uint32_t>(1, 65535)})); }
    std::string after() { return std::to_string(s.pick<uint32_t>({1, 1000, 499999999, s.range<uint32_t>(1, 499999999)})); }

    std::string miniscript(Ctx ctx)
    {
        const bool tap = ctx == Ctx::P2TR;
        auto K = [&] { return key(ctx); };
        auto M = [&](int k, int n) {
            std::string r = std::string(tap ? "multi_a(" : "multi(") + std::to_string(k);
            for (int i = 0; i < n; ++i) r += "," + K();
            return r + ")";
        };
        int t = s.range<int>(0, 17);
        st.mix(uint64_t(1000 + t));
        st.cls("miniscript");
        switch (t) {
        case 0: return "and_v(v:pk(" + K() + "),older(" + older() + "))";
        case 1: return "and_v(v:pk(" + K() + "),after(" + after() + "))";
        case 2: return "or_d(pk(" + K() + "),and_v(v:pkh(" + K() + "),older(" + older() + ")))";
        case 3: return "thresh(2,pk(" + K() + "),s:pk(" + K() + "),s:pk(" + K() + "))";
        case 4: return "thresh(2,pk(" + K() + "),s:pk(" + K() + "),adv:older(" + older() + "))";
        case 5: return "andor(pk(" + K() + "),older(" + older() + "),pk(" + K() + "))";
        case 6: return "and_v(v:sha256(" + hexbytes(32) + "),pk(" + K() + "))";
        case 7: return "and_v(v:hash256(" + hexbytes(32) + "),pk(" + K() + "))";
        case 8: return "and_v(v:ripemd160(" + hexbytes(20) + "),pk(" + K() + "))";
        case 9: return "and_v(v:hash160(" + hexbytes(20) + "),pkh(" + K() + "))";
        case 10: return "and_v(vc:andor(pk(" + K() + "),pk_k(" + K() + "),and_v(v:older(" + older() + "),pk_k(" + K() + "))),after(" + after() + "))";
        case 11: return "thresh(1,pk(" + K() + "),a:pkh(" + K() + "))";
        case 12: return "c:pk_k(" + K() + ")";
        case 13: return "c:pk_h(" + K() + ")";
        case 14: return "and_v(v:" + M(2, 3) + ",older(" + older() + "))";
        case 15: return "or_i(and_v(v:pkh(" + K() + "),hash160(" + hexbytes(20) + ")),and_v(v:pk(" + K() + "),older(" + older() + ")))";
        case 16: return "and_b(pk(" + K() + "),s:pk(" + K() + "))";
        default: return "t:or_c(pk(" + K() + "),and_v(v:pk(" + K() + "),or_c(pk(" + K() + "),v:hash160(" + hexbytes(20) + "))))";
        }
    }

    std::string tree(int depth)
    {
        if (depth < 5 && s.chance(90)) {
            st.cls("tr:branch");
            std::string l = tree(depth + 1);
            return "{" + l + "," + tree(depth + 1) + "}";
        }
        switch (s.range<int>(0, 4)) {
        case 0: return "pk(" + key(Ctx::P2TR) + ")";
        case 1: return multi(Ctx::P2TR, "multi_a", s.chance(16) ? 40 : 5);
        case 2: return multi(Ctx::P2TR, "sortedmulti_a", 5);
        default: return miniscript(Ctx::P2TR);
        }
    }

    /** extended key whose path certainly contains a multipath specifier (2-3 items), optionally ranged */
    std::string forced_mp_xkey()
    {
        ++n_keys;
        const PoolXKey& x = g.xkeys[take(free_xkeys)];
        const bool priv = s.chance(60);
        if (priv) has_priv = true;
        std::string r = priv ? x.xprv : x.xpub;
        if (s.boolean()) r += "/" + elem(false);
        if (mp_len == 0) mp_len = s.range<int>(2, 3);
        has_multipath = true;
        r += "/<";
        for (int j = 0; j < mp_len; ++j) r += (j ? ";" : "") + std::to_string(j * 7 + s.range<int>(0, 5));
        r += ">";
        if (s.boolean()) { r += "/*"; has_range = true; }
        st.cls("key:xpub");
        return r;
    }

    /** key expression without multipath, valid in a tapscript leaf */
    std::string plain_tr_key()
    {
        ++n_keys;
        switch (s.range<int>(0, 4)) {
        case 0: return g.keys[take(free_keys)].hex_x;
        case 1: return g.keys[take(free_keys)].hex_c;
        case 2: has_priv = true; return g.keys[take(free_keys)].wif_c;
        case 3: return g.xkeys[take(free_xkeys)].xpub + "/0";
        default: has_range = true; return g.xkeys[take(free_xkeys)].xpub + "/1/*";
        }
    }

    /** tr() in which one part is multipath and at least one leaf is a plain (non-multipath) pk(): expanding descriptors #1.. has to
     *  duplicate the plain parts */
    std::string tr_multipath_with_plain_leaf()
    {
        st.cls("tr");
        st.cls("tr-multipath-plain-pk");
        const bool mp_internal = s.boolean();
        std::string internal = mp_internal ? forced_mp_xkey() : plain_tr_key();
        std::string plain = "pk(" + plain_tr_key() + ")";
        std::string other;
        switch (s.range<int>(0, 3)) {
        case 0: other = "pk(" + forced_mp_xkey() + ")"; break;
        case 1: other = "multi_a(1," + forced_mp_xkey() + "," + plain_tr_key() + ")"; break;
        case 2: other = "multi_a(2," + plain_tr_key() + "," + plain_tr_key() + ")"; break;   // plain keys inside multi_a
        default: other = "and_v(v:pk(" + plain_tr_key() + "),older(" + older() + "))"; break;
        }
        if (!mp_internal && other.find('<') == std::string::npos) other = "pk(" + forced_mp_xkey() + ")";
        switch (s.range<int>(0, 3)) {
        case 0: return "tr(" + internal + "," + (mp_internal ? plain : "{" + plain + "," + other + "}") + ")";
        case 1: return "tr(" + internal + ",{" + plain + "," + other + "})";
        case 2: return "tr(" + internal + ",{" + other + "," + plain + "})";
        default: return "tr(" + internal + ",{{" + plain + ",pk(" + plain_tr_key() + ")}," + other + "})";
        }
    }

    std::string script(Ctx ctx)
    {
        int kind;
        switch (ctx) {
        case Ctx::TOP: kind = s.range<int>(0, 15); break;
        case Ctx::P2SH: kind = s.pick<int>({0, 1, 2, 4, 5, 7, 7}); break;
        case Ctx::P2WSH: kind = s.pick<int>({0, 1, 4, 5, 12, 12, 12}); break;
        default: kind = 0; break;
        }
        st.mix(uint64_t(kind) + 100 * uint64_t(ctx));
        switch (kind) {
        case 0: return "pk(" + key(ctx) + ")";
        case 1: return "pkh(" + key(ctx) + ")";
        case 2: return "wpkh(" + key(Ctx::P2WPKH) + ")";
        case 3: return "combo(" + key(ctx) + ")";
        case 4: return multi(ctx, "multi", ctx == Ctx::TOP ? 3 : (ctx == Ctx::P2SH ? 15 : 20));
        case 5: return multi(ctx, "sortedmulti", ctx == Ctx::TOP ? 3 : (ctx == Ctx::P2SH ? 15 : 20));
        case 6: st.cls("sh"); return "sh(" + script(Ctx::P2SH) + ")";
        case 7: st.cls("wsh"); return "wsh(" + script(Ctx::P2WSH) + ")";
        case 9: return tr_multipath_with_plain_leaf();
        case 8: {
            st.cls("tr");
            std::string r = "tr(" + key(Ctx::P2TR);
            if (s.chance(170)) r += "," + tree(0);
            return r + ")";
        }
        case 10: st.cls("rawtr"); return "rawtr(" + key(Ctx::P2TR) + ")";
        case 11: st.cls("addr"); return "addr(" + s.pick(g.addrs) + ")";
        case 12: return miniscript(ctx);   // at TOP: invalid on purpose (miniscript only in wsh/tr)
        case 13: st.cls("raw"); return "raw(" + hexbytes(s.range<int>(0, 40)) + ")";
        case 14: st.cls("unused"); return "unused(" + key(ctx) + ")";
        default: st.cls("sh"); st.cls("wsh"); return "sh(wsh(" + script(Ctx::P2WSH) + "))";
        }
    }
};

struct Parsed {
    std::vector<std::unique_ptr<Descriptor>> descs;
    FlatSigningProvider keys;
    std::string error;
};

Parsed DoParse(const std::string& str, bool require_checksum)
{
    Parsed p;
    p.descs = Parse(str, p.keys, p.error, require_checksum);
    return p;
}

struct Expansion {
    bool ok{false};
    std::vector<CScript> scripts;
    bool operator==(const Expansion& o) const { return ok == o.ok && (!ok || scripts == o.scripts); }
};

Expansion DoExpand(const Descriptor& d, int pos, const SigningProvider& keys)
{
    Expansion e;
    FlatSigningProvider out;
    e.ok = d.Expand(pos, keys, e.scripts, out);
    return e;
}

std::string ScriptsHex(const Expansion& e)
{
    if (!e.ok) return "<fail>";
    std::string r;
    for (const auto& sc : e.scripts) r += HexStr(sc) + " ";
    return r;
}

/** Every single-character substitution tried on `str` (which carries a valid checksum) must be rejected. */
void CheckSingleChar(verif::Src& s, verif::Stats& st, const std::string& str, const char* what)
{
    static const std::string charset = std::string(kGroup[0]) + kGroup[1] + kGroup[2];
    const size_t n = str.size();
    const size_t hash_pos = str.rfind('#');
    // bodies up to 400 characters: every position; longer: every position of the last 40 + a stride over the rest
    const size_t stride = n <= 400 ? 1 : 1 + n / 300;
    const size_t offset = stride > 1 ? s.index(stride) : 0;
    auto try_one = [&](size_t pos, char c) {
        if (str[pos] == c) return;
        std::string m = str;
        m[pos] = c;
        FlatSigningProvider keys;
        std::string err;
        auto r = Parse(m, keys, err, /*require_checksum=*/true);
        st.steps++;
        VCHECK(r.empty(), "c45.single-char", what, "pos", pos, "char", int(c), "original", str, "mutated", m);
    };
    for (size_t pos = 0; pos < n; ++pos) {
        const bool in_tail = pos + 40 >= n;
        if (!in_tail && (pos % stride) != offset) continue;
        // one generated replacement, plus the "nearest" ones: next character of the set and the case-swapped letter
        char c = charset[s.index(charset.size())];
        try_one(pos, c);
        size_t ci = charset.find(str[pos]);
        if (ci != std::string::npos) try_one(pos, charset[(ci + 1) % charset.size()]);
        if (str[pos] >= 'a' && str[pos] <= 'z') try_one(pos, char(str[pos] - 32));
        if (str[pos] >= 'A' && str[pos] <= 'Z') try_one(pos, char(str[pos] + 32));
        if (pos > hash_pos) {
            for (int i = 0; i < 32; ++i) try_one(pos, kCkAlphabet[i]);
        }
    }
    // one position gets the whole character set (incl. characters outside the set)
    const size_t p = s.index(n);
    for (int c = 32; c < 127; ++c) try_one(p, char(c));
    st.cls("single-char-strings");
}

void CheckChecksumOf(verif::Stats& st, const std::string& with_checksum, const char* what)
{
    const size_t h = with_checksum.rfind('#');
    VCHECK(h != std::string::npos && with_checksum.size() == h + 9, "c45.checksum-ref", what, "no 8-character checksum in", with_checksum);
    const std::string ref = RefChecksum(with_checksum.substr(0, h));
    st.steps++;
    VCHECK(ref == with_checksum.substr(h + 1), "c45.checksum-ref", what, "printed", with_checksum, "BIP-380 checksum", ref);
}

} // namespace

VERIF_TARGET(c45_descriptor, init_c45_desc, 12, 260,
             "descriptor strings from a grammar (all functions, key kinds, origins, paths, hardened markers, ranges, multipath, musig, "
             "miniscript templates, tr trees); accepted ones: print/parse fixpoints (public, private), script equality at indexes "
             "0/1/2^31-1, BIP-380 checksum reference, all single-character substitutions rejected; non-trivial = accepted and (nested "
             "or >= 2 keys or xkey with path/range/origin); distinct = function nesting + key kinds + flags")
{
    Gen gen(s, st);
    const std::string body = gen.script(Ctx::TOP);
    st.note(body);

    // the input carries the reference checksum: a descriptor is accepted with it iff it is accepted without one
    const std::string ref_sum = RefChecksum(body);
    VCHECK(!ref_sum.empty(), "c45.generator", "generated a character outside the descriptor character set", body);
    const std::string input = body + "#" + ref_sum;
    Parsed p0 = DoParse(body, false);
    Parsed p = DoParse(input, true);
    st.steps++;
    VCHECK(p0.descs.size() == p.descs.size(), "c45.checksum-ref", "accepted without checksum != accepted with the BIP-380 checksum", input,
           "error", p.error);
    {
        // GetDescriptorChecksum: "if it does not have one, return the checksum that would need to be added"
        const std::string got = GetDescriptorChecksum(body);
        st.steps++;
        VCHECK(got == ref_sum, "c45.checksum-ref", "GetDescriptorChecksum", got, "BIP-380", ref_sum, body);
    }
    if (p.descs.empty()) {
        st.cls("rejected");
        st.note("rejected: ", p.error);
        return;
    }
    st.cls("accepted");
    if (gen.has_multipath) st.cls("multipath");
    if (p.descs.size() > 1) st.cls("multipath-expanded");
    if (p.descs.size() > 1 && st.classes.count("tr-multipath-plain-pk")) st.cls("tr-multipath-plain-pk:expanded");
    if (gen.has_priv) st.cls("private-keys");
    if (gen.has_hardened) st.cls("hardened");
    if (gen.has_range) st.cls("ranged");
    if (gen.has_origin) st.cls("origin");

    const FlatSigningProvider no_keys;
    static const int kPos[3] = {0, 1, 0x7fffffff};
    bool first = true;
    for (const auto& d : p.descs) {
        const std::string pub = d->ToString();
        CheckChecksumOf(st, pub, "ToString");

        // public string
        Parsed p2 = DoParse(pub, true);
        st.steps++;
        VCHECK(p2.descs.size() == 1, "c45.pub-reparse", "ToString() does not parse back to one descriptor", pub, "error", p2.error, "input", input);
        const std::string pub2 = p2.descs[0]->ToString();
        st.steps++;
        VCHECK(pub2 == pub, "c45.pub-fixpoint", "canonical public string is not a fixpoint", pub, "->", pub2);
        VCHECK(p2.keys.keys.empty(), "c45.pub-fixpoint", "public string carries private keys", pub);

        // private string
        std::string priv;
        const bool has_priv = d->ToPrivateString(p.keys, priv);
        Parsed p3;
        if (has_priv) {
            st.cls("private-string");
            CheckChecksumOf(st, priv, "ToPrivateString");
            p3 = DoParse(priv, true);
            st.steps++;
            VCHECK(p3.descs.size() == 1, "c45.priv-reparse", "ToPrivateString() does not parse back to one descriptor", priv, "error", p3.error);
            st.steps++;
            VCHECK(p3.descs[0]->ToString() == pub, "c45.priv-fixpoint", "public string of the re-parsed private string differs", pub, "vs",
                   p3.descs[0]->ToString());
            std::string priv3, priv2;
            const bool ok3 = p3.descs[0]->ToPrivateString(p3.keys, priv3);
            st.steps++;
            VCHECK(ok3 && priv3 == priv, "c45.priv-fixpoint", "canonical private string is not a fixpoint", priv, "->", priv3);
            const bool ok2 = p2.descs[0]->ToPrivateString(p.keys, priv2);
            st.steps++;
            VCHECK(ok2 && priv2 == priv, "c45.pub-fixpoint", "private string of the re-parsed public descriptor differs", priv, "vs", priv2);
        }

        // scripts at derivation indexes
        const bool ranged = d->IsRange();
        st.steps++;
        VCHECK(p2.descs[0]->IsRange() == ranged, "c45.pub-fixpoint", "IsRange differs after re-parsing", pub);
        bool any_ok = false, any_fail = false;
        for (int pos : kPos) {
            const Expansion e_keys = DoExpand(*d, pos, p.keys);
            const Expansion e_none = DoExpand(*d, pos, no_keys);
            const Expansion e2_none = DoExpand(*p2.descs[0], pos, no_keys);
            const Expansion e2_keys = DoExpand(*p2.descs[0], pos, p.keys);
            st.steps += 2;
            VCHECK(e2_none == e_none, "c45.scripts-pub", "pos", pos, "without keys: original", ScriptsHex(e_none), "re-parsed", ScriptsHex(e2_none), pub,
                   "input", input);
            VCHECK(e2_keys == e_keys, "c45.scripts-pub", "pos", pos, "with keys: original", ScriptsHex(e_keys), "re-parsed", ScriptsHex(e2_keys), pub,
                   "input", input);
            if (has_priv) {
                const Expansion e3 = DoExpand(*p3.descs[0], pos, p3.keys);
                st.steps++;
                VCHECK(e3 == e_keys, "c45.scripts-priv", "pos", pos, "original", ScriptsHex(e_keys), "re-parsed private", ScriptsHex(e3), priv);
            }
            if (!ranged && pos != 0) {
                const Expansion e0 = DoExpand(*d, 0, p.keys);
                st.steps++;
                VCHECK(e0 == e_keys, "c45.scripts-pub", "unranged descriptor depends on the position", pos, pub);
            }
            (e_keys.ok ? any_ok : any_fail) = true;
            if (e_keys.ok && !e_none.ok) st.cls("needs-private-for-expansion");
        }
        if (any_ok) st.cls("expanded");
        if (any_fail) st.cls("expansion-failed");

        // single-character errors (first descriptor of a multipath family: canonical strings; always: cheap)
        if (first) {
            CheckSingleChar(s, st, input, "input");
            CheckSingleChar(s, st, pub, "public");
            if (has_priv) CheckSingleChar(s, st, priv, "private");
        }
        first = false;
    }

    st.nontrivial = gen.n_keys >= 2 || gen.has_origin || gen.has_range || gen.has_hardened || gen.has_multipath;
    st.mix(uint64_t(gen.n_keys));
    st.mix(uint64_t(gen.has_priv) | uint64_t(gen.has_hardened) << 1 | uint64_t(gen.has_range) << 2 | uint64_t(gen.has_origin) << 3 |
           uint64_t(gen.has_multipath) << 4 | uint64_t(gen.marker_mode) << 5 | uint64_t(gen.mp_len) << 8);
}
