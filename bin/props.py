"""Per-property stage definitions for the orchestrator (bin/check.py).

stage keys: kind (gen|enum|hyp|custom), binary, target, cases_quick/cases_thorough, max_seconds_*, min_cases_*, floors
(class -> minimal fraction of cases, else the run is reported as GENERATOR-DEGENERATE), tiers, workers_*, rule.
Rules (how cases are generated, what is non-trivial) live with the targets (`vh_cNN --list`) and are copied here by
bin/sync_rules.py at setup time into build/rules.json; check.py falls back to the `rule` key.
"""

def gen(binary, target, q, t, **kw):
    d = {"kind": "gen", "binary": binary, "target": target, "cases_quick": q, "cases_thorough": t}
    d.update(kw)
    return d

def enum(binary, target, **kw):
    d = {"kind": "enum", "binary": binary, "target": target}
    d.update(kw)
    return d

PROPS = {
    "C03": {
        "level": "exploration",
        "assumptions": ["reference model written from the property statement (order of rules as stated)",
                        "21M BTC = 2,100,000,000,000,000 satoshi"],
        "stages": [
            gen("vh_c03", "c03_checktx", 1500000, 30000000, min_cases_quick=100000, floors={"multi-violation": 0.05, "near-limit": 0.05, "accepted": 0.01},
                rule="structured txs; non-trivial = >=2 rules violated or a field within +-1 of a limit"),
            gen("vh_c03", "c03_bulk", 1200, 40000, rule="bulk scriptSig at the 1,000,000-byte no-witness boundary; all non-trivial"),
            enum("vh_c03", "c03_ruletable", rule="exhaustive 2^9 rule-violation combinations x 4 variants"),
        ],
    },
    "C09": {
        "level": "exploration",
        "assumptions": ["RefLedger replay (own UTXO rules, no script evaluation) is the reference; scripts are valid by construction",
                        "regtest chain, base of 104 empty blocks, histories <= 45 ops"],
        "stages": [
            gen("vh_c09", "c09_utxo_history", 640, 12000, min_cases_quick=200, floors={"reorg-depth>=2": 0.15, "deep-undo-of-old-spend": 0.1, "flush": 0.2, "invalidate": 0.2},
                rule="reorg histories; non-trivial = reorg depth>=2 undoing a spend of a pre-fork coin + coinbase spent"),
        ],
    },
    "C31": {
        "level": "exploration",
        "assumptions": ["closed-form reference: 50e8 sat halved once per completed interval, 0 from the 64th halving"],
        "stages": [
            gen("vh_c31", "c31_boundaries", 3000000, 30000000, rule="heights around halving boundaries; non-trivial = within +-3 of boundary k<=64"),
            enum("vh_c31", "c31_all_heights", rule="exhaustive: all 2^31 heights x distinct halving intervals"),
        ],
    },
}
